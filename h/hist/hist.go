// Package hist is engine E5 of /verif: a recorder for concurrent histories and
// the linear-time checkers that judge them (exactly-once, per-producer FIFO,
// real-time order, conservation, alternation, nothing-after), plus a wrapper
// around porcupine for short histories.
//
// Soundness conventions (DESIGN.md §3, R3):
//   - Stamps come from one process-global atomic logical clock, so "a < b"
//     between two stamps means the first Tick() really happened before the
//     second one (atomic Add is totally ordered).
//   - An operation is stamped Call *before* the real function is invoked and
//     Ret *after* it returned.  Hence "A.Ret < B.Call" implies A returned
//     before B was invoked (real-time precedence); nothing else is inferred.
//   - An operation whose Ret is 0 has not returned; it stays open to the end.
//
// The package depends on the standard library and porcupine only.
package hist

import (
	"fmt"
	"sort"
	"sync"
	"sync/atomic"
)

var clock atomic.Int64

// Tick advances the global logical clock and returns the new, unique stamp.
func Tick() int64 { return clock.Add(1) }

// Now reads the clock without advancing it.
func Now() int64 { return clock.Load() }

// Op is one recorded operation.
type Op struct {
	Client int    `json:"client"`
	Kind   string `json:"kind"`
	Key    string `json:"key,omitempty"` // partition key, if any
	In     any    `json:"in,omitempty"`
	Out    any    `json:"out,omitempty"`
	Call   int64  `json:"call"`
	Ret    int64  `json:"ret"` // 0: still open
	// VT is an optional caller-supplied virtual time (ns) sampled at Call; used
	// by monitors that run inside synctest bubbles.
	VT int64 `json:"vt,omitempty"`
}

// Open reports whether the operation never returned.
func (o Op) Open() bool { return o.Ret == 0 }

func (o Op) String() string {
	return fmt.Sprintf("c%d %s(%v)%s->%v [%d,%d]", o.Client, o.Kind, o.In, o.Key, o.Out, o.Call, o.Ret)
}

// Recorder owns the per-client logs of one history.
type Recorder struct {
	mu   sync.Mutex
	logs []*Log
}

// NewRecorder returns an empty recorder.
func NewRecorder() *Recorder { return &Recorder{} }

// Log is the log of one client (normally one goroutine).  It has its own
// mutex, so a callback that unexpectedly runs concurrently (which is exactly
// what some monitors look for) cannot corrupt it; logs of different clients
// never contend.
type Log struct {
	mu     sync.Mutex
	client int
	ops    []Op
}

// Client creates the log of a new client.
func (r *Recorder) Client() *Log {
	r.mu.Lock()
	defer r.mu.Unlock()
	l := &Log{client: len(r.logs)}
	r.logs = append(r.logs, l)
	return l
}

// ID is the client number of this log.
func (l *Log) ID() int { return l.client }

// Call stamps the invocation of an operation and returns its handle.  Invoke
// the real function after Call.
func (l *Log) Call(kind, key string, in any) int {
	l.mu.Lock()
	l.ops = append(l.ops, Op{Client: l.client, Kind: kind, Key: key, In: in})
	i := len(l.ops) - 1
	l.mu.Unlock()
	// The stamp is taken last so that it is as close to the invocation as
	// possible; it is written under the lock again only to publish it.
	ts := Tick()
	l.mu.Lock()
	l.ops[i].Call = ts
	l.mu.Unlock()
	return i
}

// CallVT is Call with a virtual time attached.
func (l *Log) CallVT(kind, key string, in any, vt int64) int {
	i := l.Call(kind, key, in)
	l.mu.Lock()
	l.ops[i].VT = vt
	l.mu.Unlock()
	return i
}

// Return stamps the return of operation i (first thing after the real function
// returned) and stores its result.
func (l *Log) Return(i int, out any) int64 {
	ts := Tick()
	l.mu.Lock()
	l.ops[i].Ret = ts
	l.ops[i].Out = out
	l.mu.Unlock()
	return ts
}

// Point records an instantaneous observation (Call == Ret), e.g. "callback 7
// started".  It returns the stamp.
func (l *Log) Point(kind, key string, in any) int64 {
	ts := Tick()
	l.mu.Lock()
	l.ops = append(l.ops, Op{Client: l.client, Kind: kind, Key: key, In: in, Call: ts, Ret: ts})
	l.mu.Unlock()
	return ts
}

// PointVT is Point with a virtual time attached.
func (l *Log) PointVT(kind, key string, in any, vt int64) int64 {
	ts := Tick()
	l.mu.Lock()
	l.ops = append(l.ops, Op{Client: l.client, Kind: kind, Key: key, In: in, Call: ts, Ret: ts, VT: vt})
	l.mu.Unlock()
	return ts
}

// Op returns a copy of operation i of this log.
func (l *Log) Op(i int) Op {
	l.mu.Lock()
	defer l.mu.Unlock()
	return l.ops[i]
}

// Ops returns a copy of the log.
func (l *Log) Ops() []Op {
	l.mu.Lock()
	defer l.mu.Unlock()
	return append([]Op(nil), l.ops...)
}

// Ops merges all logs, ordered by Call stamp.
func (r *Recorder) Ops() []Op {
	r.mu.Lock()
	logs := append([]*Log(nil), r.logs...)
	r.mu.Unlock()
	var all []Op
	for _, l := range logs {
		all = append(all, l.Ops()...)
	}
	sort.Slice(all, func(i, j int) bool { return all[i].Call < all[j].Call })
	return all
}

// Filter returns the operations of the given kinds, keeping order.
func Filter(ops []Op, kinds ...string) []Op {
	var out []Op
	for _, o := range ops {
		for _, k := range kinds {
			if o.Kind == k {
				out = append(out, o)
				break
			}
		}
	}
	return out
}

// ---------------------------------------------------------------------------
// Linear-time checkers.  They are pure functions over what was recorded.

// Submitted describes one uniquely identified piece of work / value handed to
// the system under test, with the stamps of the submitting call.
type Submitted struct {
	ID       int64 `json:"id"`
	Producer int   `json:"producer"`
	Seq      int   `json:"seq"` // position in its producer's program order
	Call     int64 `json:"call"`
	Ret      int64 `json:"ret"`
}

// OnceReport is the result of ExactlyOnce.
type OnceReport struct {
	Missing   []int64 `json:"missing,omitempty"`   // must-happen ids with no effect
	Duplicate []int64 `json:"duplicate,omitempty"` // ids with more than one effect
	Forbidden []int64 `json:"forbidden,omitempty"` // must-not-happen ids that had an effect
	Phantom   []int64 `json:"phantom,omitempty"`   // effects of ids nobody submitted
}

// OK reports whether nothing was found.
func (o OnceReport) OK() bool {
	return len(o.Missing)+len(o.Duplicate)+len(o.Forbidden)+len(o.Phantom) == 0
}

// ExactlyOnce judges the effect multiset against three classes of ids: must
// (exactly one effect), may (zero or one effect), never (no effect).  An effect
// whose id is in none of the classes is a phantom.
func ExactlyOnce(must, may, never []int64, effects []int64) OnceReport {
	const (
		cMust = iota + 1
		cMay
		cNever
	)
	class := make(map[int64]int, len(must)+len(may)+len(never))
	for _, id := range must {
		class[id] = cMust
	}
	for _, id := range may {
		class[id] = cMay
	}
	for _, id := range never {
		class[id] = cNever
	}
	seen := make(map[int64]int, len(effects))
	var rep OnceReport
	for _, id := range effects {
		seen[id]++
		switch {
		case class[id] == 0:
			if seen[id] == 1 {
				rep.Phantom = append(rep.Phantom, id)
			}
		case class[id] == cNever:
			if seen[id] == 1 {
				rep.Forbidden = append(rep.Forbidden, id)
			}
		}
		if seen[id] == 2 {
			rep.Duplicate = append(rep.Duplicate, id)
		}
	}
	for _, id := range must {
		if seen[id] == 0 {
			rep.Missing = append(rep.Missing, id)
		}
	}
	return rep
}

// Inversion is a witness of an ordering violation: Later took effect after
// Earlier although it had to precede it.
type Inversion struct {
	Earlier Submitted `json:"effect_first"`
	Later   Submitted `json:"effect_second"`
	Why     string    `json:"why"`
}

// PerProducerFIFO checks that, in effect order, the items of each producer
// appear with increasing Seq.  effects is the effect order.
func PerProducerFIFO(effects []Submitted) *Inversion {
	last := map[int]Submitted{}
	for _, e := range effects {
		if p, ok := last[e.Producer]; ok && e.Seq < p.Seq {
			return &Inversion{Earlier: p, Later: e, Why: "same producer submitted effect_second before effect_first"}
		}
		last[e.Producer] = e
	}
	return nil
}

// RealTimeOrder checks that the effect order is a linear extension of the
// real-time order of the submitting calls: it is a violation iff some item
// took effect later than another item although its submitting call had
// *returned* before the other's submitting call was *invoked*.  Linear scan
// from the right with the minimum Ret of the suffix.  Items with Ret == 0 (open
// submit) constrain nothing.
func RealTimeOrder(effects []Submitted) *Inversion {
	n := len(effects)
	if n < 2 {
		return nil
	}
	minRet := int64(1<<62 - 1)
	minIdx := -1
	for i := n - 1; i >= 0; i-- {
		e := effects[i]
		if minIdx >= 0 && minRet < e.Call {
			return &Inversion{Earlier: e, Later: effects[minIdx], Why: "effect_second's submit returned before effect_first's submit was invoked"}
		}
		if e.Ret != 0 && e.Ret < minRet {
			minRet, minIdx = e.Ret, i
		}
	}
	return nil
}

// Conservation checks in == out + held.
func Conservation(in, out, held int64) bool { return in == out+held }

// Alternation checks that a sequence of two-valued events strictly alternates
// starting with first.  It returns the index of the first offender or -1.
func Alternation(events []bool, first bool) int {
	want := first
	for i, e := range events {
		if e != want {
			return i
		}
		want = !want
	}
	return -1
}

// NothingAfter returns the index of the first stamp that is greater than limit
// (limit == 0 means "no limit"), or -1.
func NothingAfter(limit int64, stamps []int64) int {
	if limit == 0 {
		return -1
	}
	for i, s := range stamps {
		if s > limit {
			return i
		}
	}
	return -1
}

// Interval is a closed stamp interval.
type Interval struct{ From, To int64 }

// MaxOverlap returns the largest number of intervals that are open at the same
// stamp (To == 0 means open to the end).
func MaxOverlap(ivs []Interval) int {
	type ev struct {
		at int64
		d  int
	}
	var evs []ev
	for _, iv := range ivs {
		evs = append(evs, ev{iv.From, +1})
		if iv.To != 0 {
			evs = append(evs, ev{iv.To, -1})
		}
	}
	sort.Slice(evs, func(i, j int) bool {
		if evs[i].at != evs[j].at {
			return evs[i].at < evs[j].at
		}
		return evs[i].d > evs[j].d
	})
	cur, max := 0, 0
	for _, e := range evs {
		cur += e.d
		if cur > max {
			max = cur
		}
	}
	return max
}
