package hist

import (
	"time"

	"github.com/anishathalye/porcupine"
)

// CheckerTimeout is the budget of one porcupine run.  A timeout is reported as
// Unknown and must be turned into "inconclusive" by the caller, never into a
// pass or a violation.
const CheckerTimeout = 60 * time.Second

// Verdict of a linearizability check.
type Verdict int

const (
	// Linearizable: a sequential witness exists.
	Linearizable Verdict = iota
	// NotLinearizable: no sequential order of the recorded operations that
	// respects real-time precedence is accepted by the model.
	NotLinearizable
	// Unknown: the checker ran out of time.
	Unknown
)

func (v Verdict) String() string {
	switch v {
	case Linearizable:
		return "linearizable"
	case NotLinearizable:
		return "not-linearizable"
	}
	return "unknown"
}

// OpenOutput is the Output handed to the model for an operation that never
// returned: the model must accept any result for it (its effect may or may not
// have happened).
type OpenOutput struct{}

// ToPorcupine converts recorded operations.  Open operations get a Return
// stamp beyond every recorded stamp and OpenOutput as their output.
func ToPorcupine(ops []Op) []porcupine.Operation {
	var max int64
	for _, o := range ops {
		if o.Call > max {
			max = o.Call
		}
		if o.Ret > max {
			max = o.Ret
		}
	}
	out := make([]porcupine.Operation, 0, len(ops))
	for _, o := range ops {
		po := porcupine.Operation{ClientId: o.Client, Input: o, Call: o.Call, Output: o.Out, Return: o.Ret}
		if o.Open() {
			po.Return = max + 1
			po.Output = OpenOutput{}
		}
		out = append(out, po)
	}
	return out
}

// PartitionByKey is a porcupine partition function for histories produced by
// ToPorcupine: one partition per Op.Key.
func PartitionByKey(history []porcupine.Operation) [][]porcupine.Operation {
	idx := map[string]int{}
	var parts [][]porcupine.Operation
	for _, po := range history {
		k := po.Input.(Op).Key
		i, ok := idx[k]
		if !ok {
			i = len(parts)
			idx[k] = i
			parts = append(parts, nil)
		}
		parts[i] = append(parts[i], po)
	}
	return parts
}

// CheckLinearizable runs porcupine on the recorded operations with the shared
// checker timeout.  The model's Step receives the recorded Op as input (so it
// can switch on Kind / In / Key) and Op.Out (or OpenOutput) as output.
func CheckLinearizable(model porcupine.Model, ops []Op) Verdict {
	return CheckLinearizableTimeout(model, ops, CheckerTimeout)
}

// CheckLinearizableTimeout is CheckLinearizable with an explicit budget.
func CheckLinearizableTimeout(model porcupine.Model, ops []Op, d time.Duration) Verdict {
	switch porcupine.CheckOperationsTimeout(model, ToPorcupine(ops), d) {
	case porcupine.Ok:
		return Linearizable
	case porcupine.Illegal:
		return NotLinearizable
	}
	return Unknown
}
