// C33: internal/balancer/gracefulswitch — switching LB policies is graceful
// and isolates the old policy.
//
// The REAL gracefulswitch.Balancer is driven over lbfake (engine E3): stub
// child policies report scripted states, create subchannels, and misbehave the
// way real policies legitimately may (report inline from Build /
// UpdateClientConnState / Close, keep reporting after they were closed, create
// a subchannel while the switch happens).  The oracle is a reference model
// written from the property statement:
//
//	current / pending / last reported state per policy;
//	a report of the current or the pending policy while a pending exists makes
//	the pending current unless (current's last state is READY and pending's
//	last state is CONNECTING); a policy that never reported counts as
//	CONNECTING with a picker that queues RPCs.
//
// R2 note (deliberately weak reading): the statement's "as soon as" is
// evaluated at report events only — SwitchTo on a current policy that is not
// READY does not itself swap (the shipped design swaps at the next report of
// either policy); ResolverError with no child at all / after Close lets the
// wrapper itself publish TRANSIENT_FAILURE (not an update "from a policy").
package c33

import (
	"encoding/json"
	"errors"
	"fmt"
	"math/rand"
	"runtime"
	"sync"
	"testing"
	"testing/synctest"

	"google.golang.org/grpc/balancer"
	"google.golang.org/grpc/connectivity"
	"google.golang.org/grpc/internal/balancer/gracefulswitch"
	"google.golang.org/grpc/resolver"
	"google.golang.org/grpc/serviceconfig"
	"google.golang.org/grpc/verif/lbfake"
	"google.golang.org/grpc/verif/vlib"
)

var stubNames = []string{"c33_a", "c33_b", "c33_c", "c33_d"}

func init() {
	for _, n := range stubNames {
		lbfake.RegisterStub(n)
	}
}

// ---------------------------------------------------------------- model

type mchild struct {
	idx      int
	name     string
	live     bool // current or pending
	diedAt   int  // model epoch (quiescent check number) at which it stopped being live
	reported bool
	last     balancer.State
}

func (c *mchild) conn() connectivity.State {
	if !c.reported {
		return connectivity.Connecting
	}
	return c.last.ConnectivityState
}

type expState struct {
	conn   connectivity.State
	picker balancer.Picker // nil: the "never reported" default (queues RPCs)
	ownTF  bool            // the wrapper's own TF on a resolver error without a child (optional)
	why    string
}

type model struct {
	cur, pend *mchild
	closed    bool
	epoch     int // number of quiescent checks done so far (set by the harness)
	exp       []expState
	swapsPend int // swaps triggered by a pending report
	swapsCur  int // swaps triggered by the current leaving READY
	dropped   int // reports of closed / superseded policies
	held      int // pending CONNECTING reports held back behind a READY current
	supersede int // pendings replaced by another pending
}

func (m *model) latest() *mchild {
	if m.pend != nil {
		return m.pend
	}
	return m.cur
}

func (m *model) switchStart(name string, idx int) *mchild {
	if m.closed {
		return nil
	}
	n := &mchild{idx: idx, name: name, live: true}
	if m.cur == nil {
		m.cur = n
	} else {
		if m.pend != nil {
			m.pend.live, m.pend.diedAt = false, m.epoch
			m.supersede++
		}
		m.pend = n
	}
	return n
}

func (m *model) swap(why string) {
	e := expState{conn: m.pend.conn(), why: why}
	if m.pend.reported {
		e.picker = m.pend.last.Picker
	}
	m.exp = append(m.exp, e)
	m.cur.live, m.cur.diedAt = false, m.epoch
	m.cur, m.pend = m.pend, nil
}

func (m *model) report(c *mchild, st balancer.State) {
	c.last, c.reported = st, true
	if m.closed || !c.live {
		m.dropped++
		return
	}
	if c == m.cur {
		if m.pend != nil && st.ConnectivityState != connectivity.Ready {
			m.swapsCur++
			m.swap("current left READY")
			return
		}
		m.exp = append(m.exp, expState{conn: st.ConnectivityState, picker: st.Picker, why: "current reports"})
		return
	}
	// pending
	if st.ConnectivityState != connectivity.Connecting || m.cur.conn() != connectivity.Ready {
		m.swapsPend++
		m.swap("pending left CONNECTING or current not READY")
		return
	}
	m.held++
}

func (m *model) close() {
	m.closed = true
	if m.cur != nil {
		m.cur.live, m.cur.diedAt = false, m.epoch
	}
	if m.pend != nil {
		m.pend.live, m.pend.diedAt = false, m.epoch
	}
	m.cur, m.pend = nil, nil
}

// ---------------------------------------------------------------- harness

type kidSC struct {
	sc          *lbfake.SubConn
	lis         *lbfake.Listener
	want        int // listener deliveries the model expects
	finalSent   bool
	createdLive bool
}

type kid struct {
	mc   *mchild
	real *lbfake.Child
	seq  int
	scs  []*kidSC
	// behaviour decided at creation (no PRNG use from foreign goroutines)
	buildReport   *connectivity.State
	buildNewSC    bool
	updReport     *connectivity.State
	closeReport   *connectivity.State
	closeShutsSCs bool
}

type harness struct {
	r    *vlib.Run
	fam  string
	idx  int
	rng  *rand.Rand
	cc   *lbfake.ClientConn
	gsb  *gracefulswitch.Balancer
	conc bool

	mu         sync.Mutex // guards everything below (hooks may run on the wrapper's close goroutine)
	m          model
	kids       []*kid
	byReal     map[*lbfake.Child]*kid
	binding    *kid
	ops        []string
	checkedUS  int // UpdateState events already compared
	checkedExp int
	scanned    int // log position of the closed-child input scan
	closedAt   map[*lbfake.Child]bool
	inject     func()
	failed     bool
	midcall    int
	qchecks    int
	postClose  int
}

var states = []connectivity.State{connectivity.Ready, connectivity.Connecting, connectivity.TransientFailure, connectivity.Idle}

func pickState(rng *rand.Rand) connectivity.State {
	switch x := rng.Intn(10); {
	case x < 4:
		return connectivity.Ready
	case x < 7:
		return connectivity.Connecting
	case x < 9:
		return connectivity.TransientFailure
	default:
		return connectivity.Idle
	}
}

func optState(rng *rand.Rand, pct int) *connectivity.State {
	if rng.Intn(100) >= pct {
		return nil
	}
	s := pickState(rng)
	return &s
}

func (h *harness) opf(format string, args ...any) {
	h.ops = append(h.ops, fmt.Sprintf(format, args...))
}

type detail struct {
	Ops    []string `json:"ops"`
	Events []string `json:"last_events"`
}

func (h *harness) detail() detail {
	h.mu.Lock()
	defer h.mu.Unlock()
	ev := h.cc.Events()
	if len(ev) > 60 {
		ev = ev[len(ev)-60:]
	}
	d := detail{Ops: append([]string(nil), h.ops...)}
	for _, e := range ev {
		d.Events = append(d.Events, e.String())
	}
	return d
}

func (h *harness) violate(key, format string, args ...any) {
	h.failed = true
	h.r.Violation(key, h.fam, h.idx, h.detail(), format, args...)
}

// newState makes the next tagged state of a kid.
func (h *harness) newState(k *kid, s connectivity.State) balancer.State {
	k.seq++
	return balancer.State{ConnectivityState: s, Picker: &lbfake.Picker{Tag: fmt.Sprintf("k%d#%d", k.mc.idx, k.seq), ID: k.mc.idx,
		Err: fmt.Errorf("picker of k%d#%d", k.mc.idx, k.seq)}}
}

// report: model first (under h.mu), then the real call without any harness lock.
func (h *harness) report(k *kid, s connectivity.State, where string) {
	h.mu.Lock()
	st := h.newState(k, s)
	h.m.report(k.mc, st)
	h.opf("%s: k%d reports %v (%s)", where, k.mc.idx, s, st.Picker.(*lbfake.Picker).Tag)
	h.mu.Unlock()
	k.real.CC.UpdateState(st)
}

func (h *harness) hook(e lbfake.Event) {
	switch e.Kind {
	case lbfake.ChildBuild:
		h.mu.Lock()
		k := h.binding
		h.binding = nil
		if k == nil {
			h.mu.Unlock()
			h.violate("unexpected-child-build", "a child policy %v was built although no switch was requested", e.Child)
			return
		}
		k.real = e.Child
		h.byReal[e.Child] = k
		h.mu.Unlock()
		if e.Child.Name != k.mc.name {
			h.violate("wrong-child-built", "switch to %q built %q", k.mc.name, e.Child.Name)
		}
		if k.buildReport != nil {
			h.report(k, *k.buildReport, "inline in Build")
		}
		if k.buildNewSC {
			h.newSubConn(k, false, "inline in Build")
		}
	case lbfake.ChildUpdateClientConnState:
		h.mu.Lock()
		k := h.byReal[e.Child]
		h.mu.Unlock()
		if k != nil && k.updReport != nil {
			h.report(k, *k.updReport, "inline in UpdateClientConnState")
		}
	case lbfake.ChildClose:
		// may run on the wrapper's own close goroutine
		h.mu.Lock()
		k := h.byReal[e.Child]
		var mine []*kidSC
		if k != nil && k.closeShutsSCs {
			mine = append(mine, k.scs...)
		}
		h.mu.Unlock()
		if k == nil {
			return
		}
		for _, s := range mine {
			s.sc.Shutdown()
		}
		if k.closeReport != nil {
			h.report(k, *k.closeReport, "inline in Close")
		}
	case lbfake.NewSubConn:
		h.mu.Lock()
		f := h.inject
		h.inject = nil
		h.mu.Unlock()
		if f != nil {
			f()
		}
	}
}

// ---- operations (script goroutine only, except where noted)

func (h *harness) newKid(name string) *kid {
	k := &kid{}
	k.buildReport = optState(h.rng, 35)
	k.buildNewSC = h.rng.Intn(100) < 20
	k.updReport = optState(h.rng, 30)
	k.closeReport = optState(h.rng, 25)
	k.closeShutsSCs = h.rng.Intn(100) < 30
	return k
}

func cfgFor(name string) serviceconfig.LoadBalancingConfig {
	js, _ := json.Marshal([]map[string]any{{"c33_unregistered_policy": map[string]any{}}, {name: map[string]any{}}})
	c, err := gracefulswitch.ParseConfig(js)
	if err != nil {
		panic(err)
	}
	return c
}

// opSwitch switches to name, through SwitchTo or through a config update.
func (h *harness) opSwitch(name string, viaConfig bool) {
	h.mu.Lock()
	wasClosed := h.m.closed
	latest := h.m.latest()
	needSwitch := !viaConfig || latest == nil || latest.name != name
	var k *kid
	if needSwitch && !wasClosed {
		k = h.newKid(name)
		k.mc = h.m.switchStart(name, len(h.kids))
		h.kids = append(h.kids, k)
		h.binding = k
	}
	h.opf("switch to %s viaConfig=%v (needSwitch=%v closed=%v)", name, viaConfig, needSwitch, wasClosed)
	var target *mchild
	if !wasClosed {
		target = h.m.latest()
	}
	h.mu.Unlock()
	mark := h.cc.Len()
	var err error
	if viaConfig {
		err = h.gsb.UpdateClientConnState(balancer.ClientConnState{ResolverState: resolver.State{}, BalancerConfig: cfgFor(name)})
	} else {
		err = h.gsb.SwitchTo(lbfake.StubBuilder(name))
	}
	if wasClosed {
		if err == nil {
			h.violate("switch-after-close-accepted", "switching to %s after Close returned no error", name)
		}
		h.expectInputs(mark, nil, lbfake.ChildUpdateClientConnState)
		return
	}
	if err != nil {
		h.violate("switch-failed", "switching to %s failed: %v", name, err)
		return
	}
	h.mu.Lock()
	unbound := h.binding != nil
	h.binding = nil
	h.mu.Unlock()
	if unbound {
		h.violate("child-not-built", "switching to %s did not build the new policy", name)
		return
	}
	if viaConfig {
		h.expectInputs(mark, target, lbfake.ChildUpdateClientConnState)
	}
}

// expectInputs checks that since mark exactly one event of kind reached want (nil: none at all).
func (h *harness) expectInputs(mark int, want *mchild, kind lbfake.Kind) {
	n := 0
	for _, e := range h.cc.Since(mark) {
		if e.Kind != kind {
			continue
		}
		h.mu.Lock()
		k := h.byReal[e.Child]
		h.mu.Unlock()
		if want == nil || k == nil || k.mc != want {
			h.violate("not-forwarded-to-latest", "%v reached %v, but the most recent policy is %v", kind, e.Child, descr(want))
			return
		}
		n++
	}
	if want != nil && n != 1 {
		h.violate("not-forwarded-to-latest", "%v reached the most recent policy %v %d times, want once", kind, descr(want), n)
	}
}

func descr(c *mchild) string {
	if c == nil {
		return "<none>"
	}
	return fmt.Sprintf("k%d[%s]", c.idx, c.name)
}

func (h *harness) latestForInput() *mchild {
	h.mu.Lock()
	defer h.mu.Unlock()
	if h.m.closed {
		return nil
	}
	return h.m.latest()
}

func (h *harness) opResolverError() {
	want := h.latestForInput()
	h.mu.Lock()
	if want == nil {
		h.m.exp = append(h.m.exp, expState{conn: connectivity.TransientFailure, ownTF: true, why: "resolver error without a policy"})
	}
	h.opf("ResolverError (latest=%s)", descr(want))
	h.mu.Unlock()
	mark := h.cc.Len()
	h.gsb.ResolverError(errors.New("c33 resolver error"))
	h.expectInputs(mark, want, lbfake.ChildResolverError)
}

func (h *harness) opExitIdle() {
	want := h.latestForInput()
	h.mu.Lock()
	h.opf("ExitIdle (latest=%s)", descr(want))
	h.mu.Unlock()
	mark := h.cc.Len()
	h.gsb.ExitIdle()
	h.expectInputs(mark, want, lbfake.ChildExitIdle)
}

func (h *harness) opPlainUpdate() {
	want := h.latestForInput()
	h.mu.Lock()
	h.opf("UpdateClientConnState without config (latest=%s)", descr(want))
	h.mu.Unlock()
	mark := h.cc.Len()
	err := h.gsb.UpdateClientConnState(balancer.ClientConnState{ResolverState: resolver.State{Addresses: []resolver.Address{{Addr: "10.0.0.1:1"}}}})
	if want == nil && err == nil {
		h.mu.Lock()
		closed := h.m.closed
		h.mu.Unlock()
		if closed {
			h.violate("update-after-close-accepted", "UpdateClientConnState after Close returned no error")
		}
	}
	h.expectInputs(mark, want, lbfake.ChildUpdateClientConnState)
}

func (h *harness) opClose() {
	h.mu.Lock()
	h.m.close()
	h.opf("Close")
	h.mu.Unlock()
	h.gsb.Close()
}

// newSubConn lets kid k create a subchannel; with inject set, a switch /
// swap / Close happens while the call is inside the channel's NewSubConn.
func (h *harness) newSubConn(k *kid, inject bool, where string) {
	h.mu.Lock()
	h.opf("%s: k%d NewSubConn inject=%v", where, k.mc.idx, inject)
	if inject {
		h.midcall++
		h.inject = h.pickInjection(k)
	}
	h.mu.Unlock()
	sc, lis, err := k.real.NewSubConn([]resolver.Address{{Addr: fmt.Sprintf("10.%d.0.%d:80", k.mc.idx, len(k.scs))}})
	h.mu.Lock()
	h.inject = nil
	liveNow := k.mc.live
	if err == nil {
		fsc, ok := sc.(*lbfake.SubConn)
		if !ok {
			h.mu.Unlock()
			h.violate("foreign-subconn", "NewSubConn returned a %T, not the channel's SubConn", sc)
			return
		}
		k.scs = append(k.scs, &kidSC{sc: fsc, lis: lis, createdLive: liveNow})
	}
	h.mu.Unlock()
	if err != nil && liveNow && !inject {
		h.violate("newsubconn-refused-for-live-policy", "NewSubConn of the live policy k%d failed: %v", k.mc.idx, err)
	}
}

// pickInjection chooses what happens while k's NewSubConn is in flight (h.mu held).
func (h *harness) pickInjection(k *kid) func() {
	switch h.rng.Intn(3) {
	case 0:
		name := stubNames[h.rng.Intn(len(stubNames))]
		return func() { h.opSwitch(name, false) }
	case 1:
		// let the other live policy report something
		var other *kid
		for _, o := range h.kids {
			if o != k && o.mc.live && o.real != nil {
				other = o
			}
		}
		if other == nil {
			name := stubNames[h.rng.Intn(len(stubNames))]
			return func() { h.opSwitch(name, false) }
		}
		s := pickState(h.rng)
		return func() { h.report(other, s, "mid-NewSubConn") }
	default:
		return func() { h.opClose() }
	}
}

func (h *harness) opDeliver() {
	h.mu.Lock()
	var cands []*kidSC
	var owners []*kid
	for _, k := range h.kids {
		for _, s := range k.scs {
			if !s.finalSent {
				cands = append(cands, s)
				owners = append(owners, k)
			}
		}
	}
	if len(cands) == 0 {
		h.mu.Unlock()
		return
	}
	j := h.rng.Intn(len(cands))
	s, k := cands[j], owners[j]
	st := states[h.rng.Intn(len(states))]
	if s.sc.IsShutdown() {
		st = connectivity.Shutdown
		s.finalSent = true
	}
	if k.mc.live {
		s.want++
	}
	h.opf("deliver %v to %v of k%d (live=%v)", st, s.sc, k.mc.idx, k.mc.live)
	h.mu.Unlock()
	s.sc.Deliver(balancer.SubConnState{ConnectivityState: st})
}

func (h *harness) opChildShutsSC() {
	h.mu.Lock()
	var cands []*kidSC
	for _, k := range h.kids {
		for _, s := range k.scs {
			if !s.sc.IsShutdown() {
				cands = append(cands, s)
			}
		}
	}
	if len(cands) == 0 {
		h.mu.Unlock()
		return
	}
	s := cands[h.rng.Intn(len(cands))]
	h.opf("policy shuts down %v", s.sc)
	h.mu.Unlock()
	s.sc.Shutdown()
}

func (h *harness) pickKid(preferLive bool) *kid {
	h.mu.Lock()
	defer h.mu.Unlock()
	var live, dead []*kid
	for _, k := range h.kids {
		if k.real == nil {
			continue
		}
		if k.mc.live {
			live = append(live, k)
		} else {
			dead = append(dead, k)
		}
	}
	if len(live) == 0 && len(dead) == 0 {
		return nil
	}
	if len(dead) == 0 || (len(live) > 0 && preferLive) {
		return live[h.rng.Intn(len(live))]
	}
	return dead[h.rng.Intn(len(dead))]
}

// ---- quiescent-point oracle

func pickerIsQueueing(p balancer.Picker) bool {
	if p == nil {
		return false
	}
	if _, tagged := p.(*lbfake.Picker); tagged {
		return false
	}
	_, err := p.Pick(balancer.PickInfo{})
	return errors.Is(err, balancer.ErrNoSubConnAvailable)
}

func pickerFails(p balancer.Picker) bool {
	if p == nil {
		return false
	}
	if _, tagged := p.(*lbfake.Picker); tagged {
		return false
	}
	_, err := p.Pick(balancer.PickInfo{})
	return err != nil && !errors.Is(err, balancer.ErrNoSubConnAvailable)
}

func tagOf(p balancer.Picker) string {
	if tp, ok := p.(*lbfake.Picker); ok {
		return tp.Tag
	}
	return fmt.Sprintf("%T", p)
}

// checkQ judges everything at a quiescent point (sequential family).
func (h *harness) checkQ() {
	if h.failed {
		return
	}
	h.qchecks++
	defer func() {
		h.mu.Lock()
		h.m.epoch = h.qchecks
		h.mu.Unlock()
	}()
	// (1) the sequence of states that reached the channel
	var got []lbfake.Event
	for _, e := range h.cc.Events() {
		if e.Kind == lbfake.UpdateState {
			got = append(got, e)
		}
	}
	h.mu.Lock()
	exp := append([]expState(nil), h.m.exp...)
	h.mu.Unlock()
	gi, ei := h.checkedUS, h.checkedExp
	for gi < len(got) || ei < len(exp) {
		if ei < len(exp) && exp[ei].ownTF {
			// optional publication of the wrapper itself
			if gi < len(got) && got[gi].State.ConnectivityState == connectivity.TransientFailure && pickerFails(got[gi].State.Picker) {
				gi++
			}
			ei++
			continue
		}
		if gi >= len(got) {
			h.violate("state-update-missing", "the channel did not receive the expected update #%d: %v picker=%s (%s)", ei, exp[ei].conn, expTag(exp[ei]), exp[ei].why)
			return
		}
		g := got[gi]
		if ei >= len(exp) {
			key := "unexpected-state-update"
			if h.fromDeadKid(g.State.Picker) {
				key = "stale-policy-update-forwarded"
			}
			h.violate(key, "the channel received %v picker=%s which the model does not allow here (event %s)", g.State.ConnectivityState, tagOf(g.State.Picker), g)
			return
		}
		e := exp[ei]
		ok := g.State.ConnectivityState == e.conn
		if ok {
			if e.picker != nil {
				ok = g.State.Picker == e.picker
			} else {
				ok = pickerIsQueueing(g.State.Picker)
			}
		}
		if !ok {
			key := "state-sequence-mismatch"
			if h.fromDeadKid(g.State.Picker) {
				key = "stale-policy-update-forwarded"
			}
			h.violate(key, "update #%d to the channel is %v picker=%s, model expects %v picker=%s (%s)", gi, g.State.ConnectivityState, tagOf(g.State.Picker), e.conn, expTag(e), e.why)
			return
		}
		gi++
		ei++
	}
	h.checkedUS, h.checkedExp = gi, ei

	// (2) closed exactly the policies the model closed; (3) their subchannels are shut down
	h.mu.Lock()
	kids := append([]*kid(nil), h.kids...)
	h.mu.Unlock()
	known := map[*lbfake.SubConn]bool{}
	for _, k := range kids {
		if k.real == nil {
			continue
		}
		h.mu.Lock()
		live := k.mc.live
		scs := append([]*kidSC(nil), k.scs...)
		h.mu.Unlock()
		cl := k.real.CloseCalls()
		switch {
		case live && cl != 0:
			h.violate("live-policy-closed", "policy k%d[%s] is current/pending in the model but was closed %d time(s)", k.mc.idx, k.mc.name, cl)
			return
		case !live && cl == 0:
			h.violate("old-policy-not-closed", "policy k%d[%s] was superseded/closed in the model but its Close was never called", k.mc.idx, k.mc.name)
			return
		case !live && cl > 1:
			h.violate("policy-closed-twice", "policy k%d[%s] was closed %d times", k.mc.idx, k.mc.name, cl)
			return
		}
		for _, s := range scs {
			known[s.sc] = true
			if !live && !s.sc.IsShutdown() {
				h.violate("subconn-leak-after-close", "subchannel %v created by the closed policy k%d[%s] was never shut down", s.sc, k.mc.idx, k.mc.name)
				return
			}
			if got := len(s.lis.States()); got != s.want {
				key := "subconn-state-lost"
				if got > s.want {
					key = "subconn-state-to-closed-policy"
				}
				h.violate(key, "listener of %v (policy k%d, live=%v) received %d updates, model expects %d", s.sc, k.mc.idx, live, got, s.want)
				return
			}
		}
	}
	for _, sc := range h.cc.SubConns() {
		if !known[sc] && !sc.IsShutdown() {
			h.violate("subconn-leak-after-close", "subchannel %v was created for a policy that was told NewSubConn failed, and never shut down", sc)
			return
		}
	}
	// (4) nothing is sent into a policy after its Close was called
	h.scanInputs()
}

func expTag(e expState) string {
	if e.picker == nil {
		return "<queueing default>"
	}
	return tagOf(e.picker)
}

func (h *harness) fromDeadKid(p balancer.Picker) bool {
	tp, ok := p.(*lbfake.Picker)
	if !ok {
		return false
	}
	h.mu.Lock()
	defer h.mu.Unlock()
	// only policies that were already closed/superseded BEFORE the event being
	// judged count as stale; one that the model retires during this very event
	// is a disagreement about the swap rule, not a leak from a dead policy
	return tp.ID < len(h.kids) && !h.kids[tp.ID].mc.live && h.kids[tp.ID].mc.diedAt < h.m.epoch
}

func (h *harness) scanInputs() {
	evs := h.cc.Since(h.scanned)
	for _, e := range evs {
		switch e.Kind {
		case lbfake.ChildClose:
			h.closedAt[e.Child] = true
		case lbfake.ChildUpdateClientConnState, lbfake.ChildResolverError, lbfake.ChildExitIdle:
			if h.closedAt[e.Child] {
				h.violate("call-into-closed-policy", "%v was called on %v after its Close", e.Kind, e.Child)
				return
			}
		}
	}
	h.scanned += len(evs)
}

// ---------------------------------------------------------------- sequential family

func (h *harness) step() {
	x := h.rng.Intn(100)
	switch {
	case x < 14:
		h.opSwitch(stubNames[h.rng.Intn(len(stubNames))], h.rng.Intn(2) == 0)
	case x < 54:
		if k := h.pickKid(h.rng.Intn(10) < 7); k != nil {
			h.report(k, pickState(h.rng), "spontaneous")
		}
	case x < 64:
		if k := h.pickKid(h.rng.Intn(10) < 8); k != nil {
			h.newSubConn(k, h.rng.Intn(4) == 0, "spontaneous")
		}
	case x < 76:
		h.opDeliver()
	case x < 80:
		h.opChildShutsSC()
	case x < 85:
		h.opResolverError()
	case x < 89:
		h.opExitIdle()
	case x < 94:
		h.opPlainUpdate()
	case x < 97:
		if k := h.pickKid(true); k != nil {
			h.mu.Lock()
			h.opf("k%d ResolveNow + UpdateAddresses", k.mc.idx)
			var s *kidSC
			if len(k.scs) > 0 {
				s = k.scs[0]
			}
			h.mu.Unlock()
			k.real.CC.ResolveNow(resolver.ResolveNowOptions{})
			if s != nil {
				k.real.CC.UpdateAddresses(s.sc, []resolver.Address{{Addr: "10.9.9.9:9"}})
			}
		}
	default:
		h.mu.Lock()
		closed := h.m.closed
		h.mu.Unlock()
		if !closed {
			h.opClose()
		}
	}
}

func newHarness(r *vlib.Run, fam string, i int, rng *rand.Rand) *harness {
	h := &harness{r: r, fam: fam, idx: i, rng: rng, byReal: map[*lbfake.Child]*kid{}, closedAt: map[*lbfake.Child]bool{}}
	h.cc = lbfake.New("c33:///svc")
	h.cc.SetHook(h.hook)
	h.gsb = gracefulswitch.NewBalancer(h.cc, h.cc.BuildOptions())
	return h
}

func (h *harness) signature() string {
	b := func(n int) int {
		switch {
		case n == 0:
			return 0
		case n < 3:
			return 1
		default:
			return 2
		}
	}
	m := &h.m
	return fmt.Sprintf("sp%d/sc%d/dr%d/he%d/su%d/mid%d", b(m.swapsPend), b(m.swapsCur), b(m.dropped), b(m.held), b(m.supersede), b(h.midcall))
}

func runSeqCase(t *testing.T, r *vlib.Run, i int) {
	const fam = "seq"
	rng := r.Rand(fam, i)
	synctest.Test(t, func(t *testing.T) {
		h := newHarness(r, fam, i, rng)
		nops := 8 + rng.Intn(50)
		if i < 4 {
			nops = 40
		}
		// a few deterministic must-hit prefixes so that every seed sees both swap kinds
		switch i % 8 {
		case 0:
			h.opSwitch("c33_a", false)
			if k := h.pickKid(true); k != nil {
				h.report(k, connectivity.Ready, "prefix")
			}
			h.opSwitch("c33_b", true)
		case 1:
			h.opSwitch("c33_a", true)
			h.opSwitch("c33_b", false)
			h.opSwitch("c33_c", false)
		}
		synctest.Wait()
		h.checkQ()
		for s := 0; s < nops && !h.failed; s++ {
			h.step()
			synctest.Wait()
			h.checkQ()
		}
		h.mu.Lock()
		closed := h.m.closed
		h.mu.Unlock()
		if !closed {
			h.opClose()
			synctest.Wait()
			h.checkQ()
		}
		// after Close nothing may reach the channel from any policy
		if !h.failed {
			for _, k := range h.kids {
				if k.real != nil {
					h.report(k, pickState(rng), "after Close")
					h.postClose++
				}
			}
			synctest.Wait()
			h.checkQ()
		}
		r.Eval(1)
		m := &h.m
		r.Count("ops", int64(len(h.ops)))
		r.Count("policies_built", int64(len(h.kids)))
		r.Count("swaps_by_pending_report", int64(m.swapsPend))
		r.Count("swaps_by_current_leaving_ready", int64(m.swapsCur))
		r.Count("stale_reports_dropped", int64(m.dropped))
		r.Count("pending_reports_held_back", int64(m.held))
		r.Count("pendings_superseded", int64(m.supersede))
		r.Count("midcall_injections", int64(h.midcall))
		r.Count("subconns_created", int64(len(h.cc.SubConns())))
		r.Count("state_updates_compared", int64(h.checkedUS))
		r.Count("quiescent_checks", int64(h.qchecks))
		if m.swapsPend+m.swapsCur > 0 && (m.dropped > 0 || m.held > 0) {
			r.Nontrivial("seq/" + h.signature())
		}
		if i < 2 {
			r.Sample(map[string]any{"family": fam, "case": i, "ops": h.ops})
		}
		h.cc.SetHook(nil)
		h.cc.Release()
	})
}

// ---------------------------------------------------------------- concurrent family (safety invariants only, -race)

type concKid struct {
	real  *lbfake.Child
	stop  chan struct{}
	done  chan struct{}
	mu    sync.Mutex
	scs   []*lbfake.SubConn
	fails int
}

func runConcCase(t *testing.T, r *vlib.Run, i int) {
	const fam = "conc"
	rng := r.Rand(fam, i)
	cc := lbfake.New("c33:///conc")
	gsb := gracefulswitch.NewBalancer(cc, cc.BuildOptions())
	var kmu sync.Mutex
	var kids []*concKid
	reports := 10 + rng.Intn(40)
	seeds := make([]int64, 64)
	for j := range seeds {
		seeds[j] = rng.Int63()
	}
	cc.SetHook(func(e lbfake.Event) {
		if e.Kind != lbfake.ChildBuild {
			return
		}
		k := &concKid{real: e.Child, stop: make(chan struct{}), done: make(chan struct{})}
		kmu.Lock()
		id := len(kids)
		kids = append(kids, k)
		kmu.Unlock()
		krng := rand.New(rand.NewSource(seeds[id%len(seeds)]))
		go func() {
			defer close(k.done)
			for n := 1; n <= reports; n++ {
				select {
				case <-k.stop:
					return
				default:
				}
				st := balancer.State{ConnectivityState: pickState(krng), Picker: &lbfake.Picker{Tag: fmt.Sprintf("k%d#%d", id, n), ID: id}}
				// the picker's per-policy sequence number rides in Result.Metadata-free form: Tag + ID, seq in Err
				st.Picker.(*lbfake.Picker).Err = seqErr(n)
				k.real.CC.UpdateState(st)
				if krng.Intn(4) == 0 {
					sc, _, err := k.real.NewSubConn([]resolver.Address{{Addr: fmt.Sprintf("10.%d.%d.1:80", id, n)}})
					k.mu.Lock()
					if err == nil {
						k.scs = append(k.scs, sc.(*lbfake.SubConn))
					} else {
						k.fails++
					}
					k.mu.Unlock()
				}
				if krng.Intn(3) == 0 {
					runtime.Gosched()
				}
			}
		}()
	})
	// the "channel" goroutine: serialized calls, as the real channel makes them
	steps := 6 + rng.Intn(20)
	for s := 0; s < steps; s++ {
		switch x := rng.Intn(10); {
		case x < 4:
			if err := gsb.SwitchTo(lbfake.StubBuilder(stubNames[rng.Intn(len(stubNames))])); err != nil {
				r.Violation("switch-failed", fam, i, nil, "SwitchTo failed before Close: %v", err)
			}
		case x < 6:
			_ = gsb.UpdateClientConnState(balancer.ClientConnState{BalancerConfig: cfgFor(stubNames[rng.Intn(len(stubNames))])})
		case x < 7:
			gsb.ResolverError(errors.New("conc resolver error"))
		case x < 8:
			gsb.ExitIdle()
		default:
			// deliver a state to some subchannel whose NewSubConn has returned to its
			// policy (a real channel never calls a listener earlier), serialized
			// with the other channel calls
			var scs []*lbfake.SubConn
			kmu.Lock()
			for _, k := range kids {
				k.mu.Lock()
				scs = append(scs, k.scs...)
				k.mu.Unlock()
			}
			kmu.Unlock()
			if len(scs) > 0 {
				sc := scs[rng.Intn(len(scs))]
				if sc.IsShutdown() {
					if ns := sc.NextStates(); len(ns) == 1 {
						sc.Deliver(balancer.SubConnState{ConnectivityState: connectivity.Shutdown})
					}
				} else {
					sc.Deliver(balancer.SubConnState{ConnectivityState: states[rng.Intn(len(states))]})
				}
			}
		}
		for y := rng.Intn(3); y > 0; y-- {
			runtime.Gosched()
		}
	}
	gsb.Close() // races with the reporters on purpose
	kmu.Lock()
	all := append([]*concKid(nil), kids...)
	kmu.Unlock()
	for _, k := range all {
		<-k.done
	}
	// ---- invariants over the single ordered log
	closedAt := map[*lbfake.Child]int{}
	byID := map[int]*lbfake.Child{}
	for id, k := range all {
		byID[id] = k.real
	}
	lastSeq := map[int]int{}
	var fwd, afterClose int
	evs := cc.Events()
	det := func() any {
		var out []string
		for _, e := range evs {
			if e.Kind == lbfake.UpdateState || e.Kind == lbfake.ChildClose || e.Kind == lbfake.ChildBuild {
				out = append(out, e.String())
			}
		}
		if len(out) > 80 {
			out = out[len(out)-80:]
		}
		return out
	}
	for _, e := range evs {
		switch e.Kind {
		case lbfake.ChildClose:
			if _, dup := closedAt[e.Child]; dup {
				r.Violation("policy-closed-twice", fam, i, det(), "%v was closed twice", e.Child)
			}
			closedAt[e.Child] = e.Seq
		case lbfake.ChildUpdateClientConnState, lbfake.ChildResolverError, lbfake.ChildExitIdle:
			if _, was := closedAt[e.Child]; was {
				r.Violation("call-into-closed-policy", fam, i, det(), "%v on %v after its Close", e.Kind, e.Child)
			}
		case lbfake.UpdateState:
			tp, ok := e.State.Picker.(*lbfake.Picker)
			if !ok {
				if !pickerIsQueueing(e.State.Picker) && !pickerFails(e.State.Picker) {
					r.Violation("unexpected-state-update", fam, i, det(), "the channel received a picker %T that no policy reported", e.State.Picker)
				}
				continue
			}
			fwd++
			if at, was := closedAt[byID[tp.ID]]; was {
				afterClose++
				r.Violation("stale-policy-update-forwarded", fam, i, det(), "update %s of policy k%d reached the channel at log #%d, after that policy's Close was called at #%d", tp.Tag, tp.ID, e.Seq, at)
			}
			sq := int(tp.Err.(seqErr))
			if sq <= lastSeq[tp.ID] {
				r.Violation("forwarded-out-of-order", fam, i, det(), "policy k%d: update #%d reached the channel after #%d", tp.ID, sq, lastSeq[tp.ID])
			}
			lastSeq[tp.ID] = sq
		}
	}
	var nsc, nfail int
	for id, k := range all {
		if k.real.CloseCalls() != 1 {
			r.Violation("old-policy-not-closed", fam, i, det(), "after Close of the wrapper policy k%d has %d Close calls, want 1", id, k.real.CloseCalls())
		}
		k.mu.Lock()
		nfail += k.fails
		k.mu.Unlock()
	}
	for _, sc := range cc.SubConns() {
		nsc++
		if !sc.IsShutdown() {
			r.Violation("subconn-leak-after-close", fam, i, det(), "%v is not shut down after the wrapper and all policies were closed", sc)
		}
	}
	r.Eval(1)
	r.Count("conc_policies", int64(len(all)))
	r.Count("conc_forwarded_updates", int64(fwd))
	r.Count("conc_subconns", int64(nsc))
	r.Count("conc_newsubconn_refused", int64(nfail))
	if len(all) >= 2 && fwd > 0 {
		b := func(n int) int {
			switch {
			case n == 0:
				return 0
			case n < 4:
				return 1
			default:
				return 2
			}
		}
		r.Nontrivial(fmt.Sprintf("conc/p%d/f%d/s%d/r%d", b(len(all)), b(fwd/4), b(nsc), b(nfail)))
	}
	cc.SetHook(nil)
	cc.Release()
}

type seqErr int

func (e seqErr) Error() string { return fmt.Sprintf("seq %d", int(e)) }

func TestVerifC33(t *testing.T) {
	r := vlib.Start(t, "C33")
	n := r.N(3000, 60000)
	for i := 0; i < n; i++ {
		if !r.Want("seq", i) {
			continue
		}
		runSeqCase(t, r, i)
	}
	n = r.N(1000, 20000)
	for i := 0; i < n; i++ {
		if !r.Want("conc", i) {
			continue
		}
		runConcCase(t, r, i)
	}
	r.Finish(vlib.Spec{
		Level: "exploration",
		Rule:  "family seq: PRNG-generated histories (8-57 ops) over the real gracefulswitch.Balancer inside a synctest bubble: SwitchTo / config-driven switches among 4 stub policies, reports from current/pending/closed policies (also inline from Build, UpdateClientConnState and Close), NewSubConn (25% with a switch, a swap-triggering report or Close injected while the call is in flight), subchannel state deliveries, resolver errors, ExitIdle, Close; after every op synctest.Wait(), then the channel-visible UpdateState sequence must equal the reference model's and closed policies' Close counts and subchannels are audited; non-trivial = at least one swap AND at least one dropped stale report or held-back pending report; distinct = bucketed (swaps by pending, swaps by current, dropped, held, superseded, mid-call) signature. family conc (outside a bubble, -race): every stub policy reports 10-49 tagged states and creates subchannels from its own goroutine while one 'channel' goroutine issues SwitchTo / config updates / ResolverError / ExitIdle / subchannel deliveries and finally Close; only safety invariants over the single ordered log are judged (no update of a policy after its Close was called, per-policy order, exactly one Close, every subchannel shut down at the end, no input after Close); non-trivial = >=2 policies and >=1 forwarded update; distinct = bucketed (policies, forwarded, subconns, refused NewSubConn)",
		Assumptions: []string{
			"the swap rule is evaluated at report events (SwitchTo on a non-READY current swaps at the next report), the shipped design",
			"a policy that never reported counts as CONNECTING with a picker returning ErrNoSubConnAvailable",
			"the wrapper's own TRANSIENT_FAILURE on ResolverError without a child is allowed and optional",
			"UpdateClientConnState/ResolverError/ExitIdle are expected at the most recently created policy only (doc comments of the package)",
			"conc family: joins are channel waits only; a deadlock shows as the go test timeout (inconclusive), never as a verdict",
		},
		Floor: 16,
	})
}
