// C48: the RBAC chain engine (internal/xds/rbac.NewChainEngine / IsAuthorized)
// and the authz SDK (authz.NewStatic + interceptor) against reference
// evaluators written from the property statement, the Envoy RBAC proto
// documentation and gRFC A41 / A43.  Requests are contexts built only with
// exported APIs (incoming metadata, peer with TLS AuthInfo, server transport
// stream for the method, transport.SetConnection for the local address).
package c48

import (
	"context"
	"crypto/tls"
	"crypto/x509"
	"crypto/x509/pkix"
	"encoding/json"
	"fmt"
	"math/rand"
	"net"
	"net/url"
	"strconv"
	"strings"
	"testing"

	v3corepb "github.com/envoyproxy/go-control-plane/envoy/config/core/v3"
	v3rbacpb "github.com/envoyproxy/go-control-plane/envoy/config/rbac/v3"
	v3routepb "github.com/envoyproxy/go-control-plane/envoy/config/route/v3"
	v3matcherpb "github.com/envoyproxy/go-control-plane/envoy/type/matcher/v3"
	v3typepb "github.com/envoyproxy/go-control-plane/envoy/type/v3"
	"google.golang.org/grpc"
	"google.golang.org/grpc/authz"
	"google.golang.org/grpc/codes"
	"google.golang.org/grpc/credentials"
	"google.golang.org/grpc/internal/transport"
	"google.golang.org/grpc/internal/xds/rbac"
	"google.golang.org/grpc/metadata"
	"google.golang.org/grpc/peer"
	"google.golang.org/grpc/status"
	"google.golang.org/grpc/verif/c47_matchers/refmatch"
	"google.golang.org/grpc/verif/vlib"
	"google.golang.org/protobuf/types/known/wrapperspb"
)

// keyF4: DESIGN.md §5 F4.
const keyF4 = "authz-duplicate-rule-name-drops-earlier-rule"

// ---------------------------------------------------------------- requests

type request struct {
	Method    string              `json:"method"`
	MD        map[string][]string `json:"md"`
	PeerIP    string              `json:"peer_ip"`
	PeerPort  int                 `json:"peer_port"`
	LocalIP   string              `json:"local_ip"`
	LocalPort int                 `json:"local_port"`
	TLS       bool                `json:"tls"`
	HasCert   bool                `json:"has_cert"`
	URIs      []string            `json:"uri_sans"`
	DNS       []string            `json:"dns_sans"`
	SubjectCN string              `json:"subject_cn"`
}

var (
	methods  = []string{"/pkg.Svc/Get", "/pkg.Svc/Put", "/admin.Svc/Delete", "/a/b", "/pkg.Svc/GetAll"}
	hdrNames = []string{"x-user", "x-role", "x-n"}
	hdrVals  = []string{"alice", "bob", "admin", "Admin", "viewer", "7", "12", "a,b"}
	ips      = []string{"10.0.0.1", "10.1.2.3", "10.255.0.9", "192.168.1.7", "172.16.0.9", "127.0.0.1", "2001:db8::1", "2001:db8:1::5", "::1", "fe80::2"}
	ports    = []int{80, 443, 8080, 50051}
	uris     = []string{"spiffe://foo.com/sa1", "spiffe://foo.com/sa2", "spiffe://bar.com/sa1"}
	dnss     = []string{"svc.foo.com", "db.bar.com", "svc.bar.com"}
	cns      = []string{"client1", "admin", "svc.foo.com"}
)

func genRequest(rng *rand.Rand) request {
	q := request{Method: methods[rng.Intn(len(methods))], MD: map[string][]string{},
		PeerIP: ips[rng.Intn(len(ips))], PeerPort: 1024 + rng.Intn(60000), LocalIP: ips[rng.Intn(len(ips))], LocalPort: ports[rng.Intn(len(ports))]}
	for _, n := range hdrNames {
		switch rng.Intn(4) {
		case 0:
		case 1:
			q.MD[n] = []string{hdrVals[rng.Intn(len(hdrVals))], hdrVals[rng.Intn(len(hdrVals))]}
		default:
			q.MD[n] = []string{hdrVals[rng.Intn(len(hdrVals))]}
		}
	}
	switch rng.Intn(7) {
	case 0: // plaintext
	case 1: // TLS without a client certificate
		q.TLS = true
	case 2:
		q.TLS, q.HasCert, q.SubjectCN = true, true, cns[rng.Intn(len(cns))]
	case 3:
		q.TLS, q.HasCert, q.SubjectCN = true, true, cns[rng.Intn(len(cns))]
		q.DNS = []string{dnss[rng.Intn(len(dnss))]}
		if rng.Intn(2) == 0 {
			q.DNS = append(q.DNS, dnss[rng.Intn(len(dnss))])
		}
	case 4:
		q.TLS, q.HasCert, q.SubjectCN = true, true, cns[rng.Intn(len(cns))]
		q.URIs = []string{uris[rng.Intn(len(uris))]}
		if rng.Intn(2) == 0 {
			q.URIs = append(q.URIs, uris[rng.Intn(len(uris))])
		}
	default: // URI and DNS SANs: URIs take precedence
		q.TLS, q.HasCert, q.SubjectCN = true, true, cns[rng.Intn(len(cns))]
		q.URIs = []string{uris[rng.Intn(len(uris))]}
		q.DNS = []string{dnss[rng.Intn(len(dnss))]}
	}
	return q
}

func (q request) subject() pkix.Name { return pkix.Name{CommonName: q.SubjectCN, Organization: []string{"verif"}} }

type fakeConn struct {
	net.Conn
	local net.Addr
}

func (c fakeConn) LocalAddr() net.Addr { return c.local }

type fakeStream struct{ method string }

func (s *fakeStream) Method() string               { return s.method }
func (s *fakeStream) SetHeader(metadata.MD) error  { return nil }
func (s *fakeStream) SendHeader(metadata.MD) error { return nil }
func (s *fakeStream) SetTrailer(metadata.MD) error { return nil }

func (q request) context() context.Context {
	md := metadata.MD{}
	for k, v := range q.MD {
		md[k] = append([]string(nil), v...)
	}
	ctx := metadata.NewIncomingContext(context.Background(), md)
	p := &peer.Peer{Addr: &net.TCPAddr{IP: net.ParseIP(q.PeerIP), Port: q.PeerPort}}
	if q.TLS {
		st := tls.ConnectionState{}
		if q.HasCert {
			c := &x509.Certificate{Subject: q.subject(), DNSNames: q.DNS}
			for _, u := range q.URIs {
				pu, _ := url.Parse(u)
				c.URIs = append(c.URIs, pu)
			}
			st.PeerCertificates = []*x509.Certificate{c}
		}
		p.AuthInfo = credentials.TLSInfo{State: st, CommonAuthInfo: credentials.CommonAuthInfo{SecurityLevel: credentials.PrivacyAndIntegrity}}
	}
	ctx = peer.NewContext(ctx, p)
	ctx = grpc.NewContextWithServerTransportStream(ctx, &fakeStream{method: q.Method})
	return transport.SetConnection(ctx, fakeConn{local: &net.TCPAddr{IP: net.ParseIP(q.LocalIP), Port: q.LocalPort}})
}

// headers the RBAC engine sees: the metadata plus :path (the method) and :method=POST (A41).
func (q request) rbacHeaders() map[string][]string {
	h := map[string][]string{}
	for k, v := range q.MD {
		h[k] = v
	}
	h[":path"] = []string{q.Method}
	h[":method"] = []string{"POST"}
	return h
}

// principalMatches: Envoy Principal.Authenticated + A41: only on TLS; no
// principal_name => any authenticated peer; no certificate => the empty string
// is matched; else URI SANs if any, else DNS SANs if any, else the subject.
func (q request) principalMatches(m *refmatch.StringSpec) bool {
	if !q.TLS {
		return false
	}
	if m == nil {
		return true
	}
	if !q.HasCert {
		return m.Match("")
	}
	if len(q.URIs) > 0 {
		for _, u := range q.URIs {
			if m.Match(u) {
				return true
			}
		}
		return false
	}
	if len(q.DNS) > 0 {
		for _, d := range q.DNS {
			if m.Match(d) {
				return true
			}
		}
		return false
	}
	return m.Match(q.subject().String())
}

// ---------------------------------------------------------------- CIDR reference

type cidr struct {
	Addr string
	Len  uint32
}

// contains: same address family and the first Len bits agree.
func (c cidr) contains(ipStr string) bool {
	a, b := net.ParseIP(c.Addr), net.ParseIP(ipStr)
	a4, b4 := a.To4(), b.To4()
	var x, y []byte
	switch {
	case a4 != nil && b4 != nil:
		x, y = a4, b4
	case a4 == nil && b4 == nil:
		x, y = a.To16(), b.To16()
	default:
		return false
	}
	for i := uint32(0); i < c.Len; i++ {
		if (x[i/8]>>(7-i%8))&1 != (y[i/8]>>(7-i%8))&1 {
			return false
		}
	}
	return true
}

func (c cidr) proto() *v3corepb.CidrRange {
	return &v3corepb.CidrRange{AddressPrefix: c.Addr, PrefixLen: wrapperspb.UInt32(c.Len)}
}

func genCIDR(rng *rand.Rand) cidr {
	ip := ips[rng.Intn(len(ips))]
	max := uint32(128)
	if net.ParseIP(ip).To4() != nil {
		max = 32
	}
	switch rng.Intn(5) {
	case 0:
		return cidr{ip, max}
	case 1:
		return cidr{ip, 0}
	case 2:
		return cidr{ip, vlib.Pick(rng, uint32(8), uint32(16), uint32(24))}
	default:
		return cidr{ip, uint32(rng.Intn(int(max) + 1))} // address bits beyond the prefix are set: must be masked
	}
}

// ---------------------------------------------------------------- policy trees (proto + reference together)

type node struct {
	Kind string  `json:"kind"`
	Subs []*node `json:"subs,omitempty"`
	Desc string  `json:"desc,omitempty"`
	eval func(q request) bool
}

func (n *node) match(q request) bool {
	switch n.Kind {
	case "and":
		for _, s := range n.Subs {
			if !s.match(q) {
				return false
			}
		}
		return true
	case "or":
		for _, s := range n.Subs {
			if s.match(q) {
				return true
			}
		}
		return false
	case "not":
		return !n.Subs[0].match(q)
	}
	return n.eval(q)
}

func (n *node) String() string {
	if len(n.Subs) == 0 {
		return n.Kind + "(" + n.Desc + ")"
	}
	parts := make([]string, len(n.Subs))
	for i, s := range n.Subs {
		parts[i] = s.String()
	}
	return n.Kind + "[" + strings.Join(parts, ", ") + "]"
}

func strProto(s refmatch.StringSpec) *v3matcherpb.StringMatcher {
	p := &v3matcherpb.StringMatcher{IgnoreCase: s.IgnoreCase}
	switch s.Kind {
	case refmatch.Exact:
		p.MatchPattern = &v3matcherpb.StringMatcher_Exact{Exact: s.Pattern}
	case refmatch.Prefix:
		p.MatchPattern = &v3matcherpb.StringMatcher_Prefix{Prefix: s.Pattern}
	case refmatch.Suffix:
		p.MatchPattern = &v3matcherpb.StringMatcher_Suffix{Suffix: s.Pattern}
	case refmatch.Contains:
		p.MatchPattern = &v3matcherpb.StringMatcher_Contains{Contains: s.Pattern}
	default:
		p.MatchPattern = &v3matcherpb.StringMatcher_SafeRegex{SafeRegex: &v3matcherpb.RegexMatcher{Regex: s.Pattern}}
	}
	return p
}

// genStr makes a string matcher that is likely to match one of targets.
func genStr(rng *rand.Rand, targets []string) refmatch.StringSpec {
	t := targets[rng.Intn(len(targets))]
	k := refmatch.StrKind(rng.Intn(5))
	ic := rng.Intn(3) == 0
	if k == refmatch.Regex {
		n := refmatch.Cat(refmatch.Lit(t[:rng.Intn(len(t)+1)]), refmatch.GenRegex(rng, 1))
		if rng.Intn(3) == 0 {
			n = refmatch.Cat(refmatch.Lit(t[:rng.Intn(len(t)+1)]), refmatch.Star(refmatch.Any()))
		}
		return refmatch.StringSpec{Kind: k, Pattern: n.String(), Re: n}
	}
	pat := t
	if k != refmatch.Exact && len(t) > 1 {
		a := rng.Intn(len(t))
		b := a + 1 + rng.Intn(len(t)-a)
		switch k {
		case refmatch.Prefix:
			pat = t[:b]
		case refmatch.Suffix:
			pat = t[a:]
		default:
			pat = t[a:b]
		}
	}
	if ic {
		pat = refmatch.MutateCase(rng, pat, false)
	}
	return refmatch.StringSpec{Kind: k, Pattern: pat, IgnoreCase: ic}
}

func strDesc(s refmatch.StringSpec) string {
	return fmt.Sprintf("%s %s ic=%v", s.Kind, strconv.QuoteToASCII(s.Pattern), s.IgnoreCase)
}

func genHeader(rng *rand.Rand) (refmatch.HeaderSpec, *v3routepb.HeaderMatcher) {
	h := refmatch.HeaderSpec{Name: vlib.Pick(rng, "x-user", "x-role", "x-n", ":path", ":method"), Invert: rng.Intn(4) == 0, Kind: refmatch.HKind(rng.Intn(8))}
	targets := hdrVals
	switch h.Name {
	case ":path":
		targets = methods
	case ":method":
		targets = []string{"POST", "GET"}
	}
	p := &v3routepb.HeaderMatcher{Name: h.Name, InvertMatch: h.Invert}
	switch h.Kind {
	case refmatch.HExact, refmatch.HPrefix, refmatch.HSuffix, refmatch.HContains:
		s := genStr(rng, targets)
		for s.Kind == refmatch.Regex {
			s = genStr(rng, targets)
		}
		s.Kind, s.IgnoreCase = refmatch.StrKind(h.Kind), false
		h.Str = s
		switch h.Kind {
		case refmatch.HExact:
			p.HeaderMatchSpecifier = &v3routepb.HeaderMatcher_ExactMatch{ExactMatch: s.Pattern}
		case refmatch.HPrefix:
			p.HeaderMatchSpecifier = &v3routepb.HeaderMatcher_PrefixMatch{PrefixMatch: s.Pattern}
		case refmatch.HSuffix:
			p.HeaderMatchSpecifier = &v3routepb.HeaderMatcher_SuffixMatch{SuffixMatch: s.Pattern}
		default:
			p.HeaderMatchSpecifier = &v3routepb.HeaderMatcher_ContainsMatch{ContainsMatch: s.Pattern}
		}
	case refmatch.HRegex:
		s := genStr(rng, targets)
		for s.Kind != refmatch.Regex {
			s = genStr(rng, targets)
		}
		h.Str = s
		p.HeaderMatchSpecifier = &v3routepb.HeaderMatcher_SafeRegexMatch{SafeRegexMatch: &v3matcherpb.RegexMatcher{Regex: s.Pattern}}
	case refmatch.HRange:
		h.Start = int64(rng.Intn(15))
		h.End = h.Start + int64(rng.Intn(10))
		p.HeaderMatchSpecifier = &v3routepb.HeaderMatcher_RangeMatch{RangeMatch: &v3typepb.Int64Range{Start: h.Start, End: h.End}}
	case refmatch.HPresent:
		h.Present = rng.Intn(3) != 0
		p.HeaderMatchSpecifier = &v3routepb.HeaderMatcher_PresentMatch{PresentMatch: h.Present}
	default:
		h.Str = genStr(rng, targets)
		p.HeaderMatchSpecifier = &v3routepb.HeaderMatcher_StringMatch{StringMatch: strProto(h.Str)}
	}
	return h, p
}

func hdrDesc(h refmatch.HeaderSpec) string {
	return fmt.Sprintf("%s %s %s [%d,%d) present=%v invert=%v", h.Name, h.Kind, strDesc(h.Str), h.Start, h.End, h.Present, h.Invert)
}

func hdrNode(h refmatch.HeaderSpec) *node {
	return &node{Kind: "header", Desc: hdrDesc(h), eval: func(q request) bool { m, _ := h.Match(q.rbacHeaders()); return m }}
}

func genPermission(rng *rand.Rand, depth int) (*v3rbacpb.Permission, *node) {
	k := rng.Intn(11)
	if depth <= 0 && k < 3 {
		k = 3 + rng.Intn(8)
	}
	switch k {
	case 0, 1:
		kind := "and"
		if k == 1 {
			kind = "or"
		}
		n := &node{Kind: kind}
		set := &v3rbacpb.Permission_Set{}
		for j := 1 + rng.Intn(3); j > 0; j-- {
			p, s := genPermission(rng, depth-1)
			set.Rules = append(set.Rules, p)
			n.Subs = append(n.Subs, s)
		}
		if k == 0 {
			return &v3rbacpb.Permission{Rule: &v3rbacpb.Permission_AndRules{AndRules: set}}, n
		}
		return &v3rbacpb.Permission{Rule: &v3rbacpb.Permission_OrRules{OrRules: set}}, n
	case 2:
		p, s := genPermission(rng, depth-1)
		return &v3rbacpb.Permission{Rule: &v3rbacpb.Permission_NotRule{NotRule: p}}, &node{Kind: "not", Subs: []*node{s}}
	case 3:
		return &v3rbacpb.Permission{Rule: &v3rbacpb.Permission_Any{Any: true}}, &node{Kind: "any", eval: func(request) bool { return true }}
	case 4, 5:
		h, p := genHeader(rng)
		return &v3rbacpb.Permission{Rule: &v3rbacpb.Permission_Header{Header: p}}, hdrNode(h)
	case 6, 7:
		s := genStr(rng, methods)
		return &v3rbacpb.Permission{Rule: &v3rbacpb.Permission_UrlPath{UrlPath: &v3matcherpb.PathMatcher{Rule: &v3matcherpb.PathMatcher_Path{Path: strProto(s)}}}},
			&node{Kind: "url_path", Desc: strDesc(s), eval: func(q request) bool { return s.Match(q.Method) }}
	case 8:
		c := genCIDR(rng)
		return &v3rbacpb.Permission{Rule: &v3rbacpb.Permission_DestinationIp{DestinationIp: c.proto()}},
			&node{Kind: "destination_ip", Desc: fmt.Sprintf("%s/%d", c.Addr, c.Len), eval: func(q request) bool { return c.contains(q.LocalIP) }}
	case 9:
		port := uint32(ports[rng.Intn(len(ports))])
		return &v3rbacpb.Permission{Rule: &v3rbacpb.Permission_DestinationPort{DestinationPort: port}},
			&node{Kind: "destination_port", Desc: fmt.Sprint(port), eval: func(q request) bool { return uint32(q.LocalPort) == port }}
	default:
		if rng.Intn(2) == 0 { // A41: metadata is unsupported: never matches, always matches when inverted
			inv := rng.Intn(2) == 0
			return &v3rbacpb.Permission{Rule: &v3rbacpb.Permission_Metadata{Metadata: &v3matcherpb.MetadataMatcher{Invert: inv}}},
				&node{Kind: "metadata", Desc: fmt.Sprint("invert=", inv), eval: func(request) bool { return inv }}
		}
		// A41: requested_server_name is matched against the empty string
		s := genStr(rng, []string{"foo.com", "x"})
		if rng.Intn(2) == 0 {
			s = refmatch.StringSpec{Kind: refmatch.Exact, Pattern: ""}
		}
		return &v3rbacpb.Permission{Rule: &v3rbacpb.Permission_RequestedServerName{RequestedServerName: strProto(s)}},
			&node{Kind: "requested_server_name", Desc: strDesc(s), eval: func(request) bool { return s.Match("") }}
	}
}

func genPrincipal(rng *rand.Rand, depth int) (*v3rbacpb.Principal, *node) {
	k := rng.Intn(12)
	if depth <= 0 && k < 3 {
		k = 3 + rng.Intn(9)
	}
	switch k {
	case 0, 1:
		kind := "and"
		if k == 1 {
			kind = "or"
		}
		n := &node{Kind: kind}
		set := &v3rbacpb.Principal_Set{}
		for j := 1 + rng.Intn(3); j > 0; j-- {
			p, s := genPrincipal(rng, depth-1)
			set.Ids = append(set.Ids, p)
			n.Subs = append(n.Subs, s)
		}
		if k == 0 {
			return &v3rbacpb.Principal{Identifier: &v3rbacpb.Principal_AndIds{AndIds: set}}, n
		}
		return &v3rbacpb.Principal{Identifier: &v3rbacpb.Principal_OrIds{OrIds: set}}, n
	case 2:
		p, s := genPrincipal(rng, depth-1)
		return &v3rbacpb.Principal{Identifier: &v3rbacpb.Principal_NotId{NotId: p}}, &node{Kind: "not", Subs: []*node{s}}
	case 3:
		return &v3rbacpb.Principal{Identifier: &v3rbacpb.Principal_Any{Any: true}}, &node{Kind: "any", eval: func(request) bool { return true }}
	case 4, 5, 6:
		if rng.Intn(5) == 0 {
			return &v3rbacpb.Principal{Identifier: &v3rbacpb.Principal_Authenticated_{Authenticated: &v3rbacpb.Principal_Authenticated{}}},
				&node{Kind: "authenticated", Desc: "any", eval: func(q request) bool { return q.principalMatches(nil) }}
		}
		var targets []string
		targets = append(targets, uris...)
		targets = append(targets, dnss...)
		targets = append(targets, "CN=client1,O=verif", "CN=admin,O=verif")
		s := genStr(rng, targets)
		if rng.Intn(8) == 0 {
			s = refmatch.StringSpec{Kind: refmatch.Exact, Pattern: ""} // matches only a TLS peer without certificate
		}
		return &v3rbacpb.Principal{Identifier: &v3rbacpb.Principal_Authenticated_{Authenticated: &v3rbacpb.Principal_Authenticated{PrincipalName: strProto(s)}}},
			&node{Kind: "authenticated", Desc: strDesc(s), eval: func(q request) bool { return q.principalMatches(&s) }}
	case 7, 8:
		c := genCIDR(rng)
		n := &node{Kind: "remote_ip", Desc: fmt.Sprintf("%s/%d", c.Addr, c.Len), eval: func(q request) bool { return c.contains(q.PeerIP) }}
		switch rng.Intn(3) { // A41: the three are equivalent in gRPC
		case 0:
			return &v3rbacpb.Principal{Identifier: &v3rbacpb.Principal_SourceIp{SourceIp: c.proto()}}, n
		case 1:
			return &v3rbacpb.Principal{Identifier: &v3rbacpb.Principal_DirectRemoteIp{DirectRemoteIp: c.proto()}}, n
		default:
			return &v3rbacpb.Principal{Identifier: &v3rbacpb.Principal_RemoteIp{RemoteIp: c.proto()}}, n
		}
	case 9:
		h, p := genHeader(rng)
		return &v3rbacpb.Principal{Identifier: &v3rbacpb.Principal_Header{Header: p}}, hdrNode(h)
	case 10:
		s := genStr(rng, methods)
		return &v3rbacpb.Principal{Identifier: &v3rbacpb.Principal_UrlPath{UrlPath: &v3matcherpb.PathMatcher{Rule: &v3matcherpb.PathMatcher_Path{Path: strProto(s)}}}},
			&node{Kind: "url_path", Desc: strDesc(s), eval: func(q request) bool { return s.Match(q.Method) }}
	default:
		inv := rng.Intn(2) == 0
		return &v3rbacpb.Principal{Identifier: &v3rbacpb.Principal_Metadata{Metadata: &v3matcherpb.MetadataMatcher{Invert: inv}}},
			&node{Kind: "metadata", Desc: fmt.Sprint("invert=", inv), eval: func(request) bool { return inv }}
	}
}

type refPolicy struct {
	Name        string
	Permissions []*node
	Principals  []*node
}

func (p refPolicy) match(q request) bool {
	perm, prin := false, false
	for _, n := range p.Permissions {
		if n.match(q) {
			perm = true
		}
	}
	for _, n := range p.Principals {
		if n.match(q) {
			prin = true
		}
	}
	return perm && prin
}

type refEngine struct {
	Deny     bool
	Policies []refPolicy
}

func (e refEngine) String() string {
	var sb strings.Builder
	if e.Deny {
		sb.WriteString("DENY{")
	} else {
		sb.WriteString("ALLOW{")
	}
	for _, p := range e.Policies {
		fmt.Fprintf(&sb, " %s: permissions=%v principals=%v;", p.Name, p.Permissions, p.Principals)
	}
	sb.WriteString(" }")
	return sb.String()
}

// refChain: the RPC is allowed iff every engine lets it through: a DENY engine
// rejects when some policy matches, an ALLOW engine rejects when none matches.
func refChain(es []refEngine, q request) (allowed bool, rejectingEngine int) {
	for i, e := range es {
		any := false
		for _, p := range e.Policies {
			if p.match(q) {
				any = true
			}
		}
		if e.Deny == any {
			return false, i
		}
	}
	return true, -1
}

func depthOf(n *node) int {
	d := 0
	for _, s := range n.Subs {
		if x := depthOf(s); x > d {
			d = x
		}
	}
	return d + 1
}

func kindsOf(n *node, into map[string]bool) {
	into[n.Kind] = true
	for _, s := range n.Subs {
		kindsOf(s, into)
	}
}

// ---------------------------------------------------------------- authz SDK policies

type sdkHeader struct {
	Key    string   `json:"key"`
	Values []string `json:"values"`
}

type sdkRule struct {
	Name   string `json:"name"`
	Source *struct {
		Principals []string `json:"principals,omitempty"`
	} `json:"source,omitempty"`
	Request *struct {
		Paths   []string    `json:"paths,omitempty"`
		Headers []sdkHeader `json:"headers,omitempty"`
	} `json:"request,omitempty"`
}

type sdkPolicy struct {
	Name       string    `json:"name"`
	DenyRules  []sdkRule `json:"deny_rules,omitempty"`
	AllowRules []sdkRule `json:"allow_rules"`
}

// wildcard: gRFC A43: "*" = present and non-empty, "abc*" prefix, "*abc" suffix, else exact.
func wildcard(pat, s string) bool {
	switch {
	case pat == "*":
		return s != ""
	case strings.HasSuffix(pat, "*"):
		return strings.HasPrefix(s, pat[:len(pat)-1])
	case strings.HasPrefix(pat, "*"):
		return strings.HasSuffix(s, pat[1:])
	}
	return s == pat
}

func (r sdkRule) principals() []string {
	if r.Source == nil {
		return nil
	}
	return r.Source.Principals
}

func (r sdkRule) match(q request) bool {
	if ps := r.principals(); len(ps) > 0 {
		ok := false
		for _, p := range ps {
			p := p
			if q.principalMatchesFunc(func(id string) bool { return wildcard(p, id) }) {
				ok = true
			}
		}
		if !ok {
			return false
		}
	}
	if r.Request != nil {
		if len(r.Request.Paths) > 0 {
			ok := false
			for _, p := range r.Request.Paths {
				if wildcard(p, q.Method) {
					ok = true
				}
			}
			if !ok {
				return false
			}
		}
		for _, h := range r.Request.Headers {
			v, present := refmatch.JoinedValue(q.MD, strings.ToLower(h.Key))
			if !present {
				return false
			}
			ok := false
			for _, p := range h.Values {
				if wildcard(p, v) {
					ok = true
				}
			}
			if !ok {
				return false
			}
		}
	}
	return true
}

// principalMatchesFunc is principalMatches for an arbitrary predicate.
func (q request) principalMatchesFunc(m func(string) bool) bool {
	if !q.TLS {
		return false
	}
	if !q.HasCert {
		return m("")
	}
	if len(q.URIs) > 0 {
		for _, u := range q.URIs {
			if m(u) {
				return true
			}
		}
		return false
	}
	if len(q.DNS) > 0 {
		for _, d := range q.DNS {
			if m(d) {
				return true
			}
		}
		return false
	}
	return m(q.subject().String())
}

// refSDK: denied if any deny rule matches, else allowed iff some allow rule matches.
func refSDK(p sdkPolicy, q request) bool {
	for _, r := range p.DenyRules {
		if r.match(q) {
			return false
		}
	}
	for _, r := range p.AllowRules {
		if r.match(q) {
			return true
		}
	}
	return false
}

// lastWins drops every rule that has a later rule of the same name in the same
// list.  Attribution helper for F4 only, never an oracle.
func lastWins(rs []sdkRule) []sdkRule {
	var out []sdkRule
	for i, r := range rs {
		dup := false
		for _, later := range rs[i+1:] {
			if later.Name == r.Name {
				dup = true
			}
		}
		if !dup {
			out = append(out, r)
		}
	}
	return out
}

func hasDup(rs []sdkRule) bool { return len(lastWins(rs)) != len(rs) }

func genWild(rng *rand.Rand, targets []string) string {
	t := targets[rng.Intn(len(targets))]
	switch rng.Intn(6) {
	case 0:
		return "*"
	case 1:
		return t[:1+rng.Intn(len(t))] + "*"
	case 2:
		return "*" + t[rng.Intn(len(t)):]
	case 3:
		return "nomatch-" + t
	default:
		return t
	}
}

func genSDKRule(rng *rand.Rand, names []string) sdkRule {
	r := sdkRule{Name: names[rng.Intn(len(names))]}
	if rng.Intn(2) == 0 {
		r.Source = &struct {
			Principals []string `json:"principals,omitempty"`
		}{}
		var targets []string
		targets = append(targets, uris...)
		targets = append(targets, dnss...)
		targets = append(targets, "CN=client1,O=verif")
		for k := 1 + rng.Intn(2); k > 0; k-- {
			r.Source.Principals = append(r.Source.Principals, genWild(rng, targets))
		}
	}
	if rng.Intn(4) != 0 {
		r.Request = &struct {
			Paths   []string    `json:"paths,omitempty"`
			Headers []sdkHeader `json:"headers,omitempty"`
		}{}
		if rng.Intn(3) != 0 {
			for k := 1 + rng.Intn(2); k > 0; k-- {
				r.Request.Paths = append(r.Request.Paths, genWild(rng, methods))
			}
		}
		for k := rng.Intn(3); k > 0; k-- {
			h := sdkHeader{Key: vlib.Pick(rng, "x-user", "x-role", "X-User", "x-n")}
			for j := 1 + rng.Intn(2); j > 0; j-- {
				h.Values = append(h.Values, genWild(rng, hdrVals))
			}
			r.Request.Headers = append(r.Request.Headers, h)
		}
	}
	return r
}

// ---------------------------------------------------------------- the tests

type engineCase struct {
	Engines []string `json:"engines"`
	Request request  `json:"request"`
	Got     string   `json:"got"`
	Want    string   `json:"want"`
}

func TestVerifC48Engine(t *testing.T) {
	r := vlib.Start(t, "C48")
	const fam = "engine"
	n := r.N(12000, 300000)
	for i := 0; i < n; i++ {
		if !r.Want(fam, i) {
			continue
		}
		rng := r.Rand(fam, i)
		var protos []*v3rbacpb.RBAC
		var refs []refEngine
		maxDepth := 0
		kinds := map[string]bool{}
		for e := 1 + rng.Intn(3); e > 0; e-- {
			re := refEngine{Deny: rng.Intn(2) == 0}
			pr := &v3rbacpb.RBAC{Action: v3rbacpb.RBAC_ALLOW, Policies: map[string]*v3rbacpb.Policy{}}
			if re.Deny {
				pr.Action = v3rbacpb.RBAC_DENY
			}
			for p := rng.Intn(4); p > 0; p-- { // 0 policies is legal: ALLOW rejects everything, DENY nothing
				rp := refPolicy{Name: "p" + strconv.Itoa(p)}
				pp := &v3rbacpb.Policy{}
				for k := 1 + rng.Intn(2); k > 0; k-- {
					x, nd := genPermission(rng, rng.Intn(4))
					pp.Permissions = append(pp.Permissions, x)
					rp.Permissions = append(rp.Permissions, nd)
					if d := depthOf(nd); d > maxDepth {
						maxDepth = d
					}
					kindsOf(nd, kinds)
				}
				for k := 1 + rng.Intn(2); k > 0; k-- {
					x, nd := genPrincipal(rng, rng.Intn(4))
					pp.Principals = append(pp.Principals, x)
					rp.Principals = append(rp.Principals, nd)
					if d := depthOf(nd); d > maxDepth {
						maxDepth = d
					}
					kindsOf(nd, kinds)
				}
				pr.Policies[rp.Name] = pp
				re.Policies = append(re.Policies, rp)
			}
			protos = append(protos, pr)
			refs = append(refs, re)
		}
		r.Progress(fam, i, "NewChainEngine")
		ce, err := rbac.NewChainEngine(protos, "verif")
		descr := make([]string, len(refs))
		for k := range refs {
			descr[k] = refs[k].String()
		}
		if err != nil {
			// every generated policy is valid by construction (CIDRs are well formed, regexes are RE2)
			r.Violation("valid-policy-rejected", fam, i, descr, "NewChainEngine rejected a valid policy chain: %v (%v)", err, descr)
			continue
		}
		for _, k := range sortedKeys(kinds) {
			r.Count("leaf_or_combinator_"+k, 1)
		}
		for j := 0; j < 8; j++ {
			q := genRequest(rng)
			err := ce.IsAuthorized(q.context())
			r.Eval(1)
			want, rej := refChain(refs, q)
			got := err == nil
			c := engineCase{Engines: descr, Request: q, Got: fmt.Sprint(err), Want: fmt.Sprintf("allowed=%v (rejecting engine %d)", want, rej)}
			switch {
			case err != nil && status.Code(err) != codes.PermissionDenied:
				r.Violation("engine-unexpected-error", fam, i, c, "IsAuthorized returned %v for a fully populated context", err)
			case got != want && !want:
				r.Violation("engine-allowed-but-policy-denies", fam, i, c, "IsAuthorized allowed %+v; reference: rejected by engine %d of %v", q, rej, descr)
			case got != want:
				r.Violation("engine-denied-but-policy-allows", fam, i, c, "IsAuthorized = %v for %+v; reference: allowed by %v", err, q, descr)
			}
			auth := "plain"
			switch {
			case q.TLS && !q.HasCert:
				auth = "tls-nocert"
			case len(q.URIs) > 0:
				auth = "uri"
			case len(q.DNS) > 0:
				auth = "dns"
			case q.TLS:
				auth = "subject"
			}
			r.Nontrivial(fmt.Sprintf("engine/n%d/depth%d/%v/rej%d/%s", len(refs), maxDepth, want, rej, auth))
			if want {
				r.Count("engine_requests_allowed", 1)
			} else {
				r.Count("engine_requests_denied", 1)
			}
			if i < 1 && j < 2 {
				r.Sample(c)
			}
		}
	}
	r.Finish(vlib.Spec{
		Level: "exploration",
		Rule: "PRNG chains of 1-3 RBAC engines (ALLOW/DENY) x 0-3 policies x 1-2 permission and principal trees of depth <= 4 over and/or/not/any/header(all 8 specifiers, invert, :path, :method)/url_path/destination_ip/destination_port/metadata/requested_server_name/" +
			"authenticated/source_ip|direct_remote_ip|remote_ip; 8 PRNG requests per chain (method, multi-valued metadata, v4/v6 peer and local addresses, plaintext / TLS without cert / URI SANs / DNS SANs / subject only / URI+DNS); " +
			"distinct = (#engines, tree depth, decision, rejecting engine, peer identity class)",
		Assumptions: []string{
			"reference = Envoy RBAC proto semantics + gRFC A41 (metadata never matches unless inverted, requested_server_name matches \"\", source_ip = direct_remote_ip = remote_ip, :method = POST)",
			"matchers are ASCII and header values non-empty here (Unicode folding and empty-valued headers are judged, and recorded as findings, by C47)",
			"peer certificates are x509.Certificate values with URIs / DNSNames / Subject set (the engine reads nothing else); no TLS handshake is performed",
		},
		Floor: 60,
	})
}

func sortedKeys(m map[string]bool) []string {
	var out []string
	for k := range m {
		out = append(out, k)
	}
	for i := range out {
		for j := i + 1; j < len(out); j++ {
			if out[j] < out[i] {
				out[i], out[j] = out[j], out[i]
			}
		}
	}
	return out
}

type sdkCase struct {
	Policy  string  `json:"policy_json"`
	Request request `json:"request"`
	Got     string  `json:"got"`
	Want    bool    `json:"want_allowed"`
}

func TestVerifC48Authz(t *testing.T) {
	r := vlib.Start(t, "C48")
	const fam = "authz"
	n := r.N(12000, 300000)
	for i := 0; i < n; i++ {
		if !r.Want(fam, i) {
			continue
		}
		rng := r.Rand(fam, i)
		names := []string{"r1", "r2", "r3", "r4", "r5", "r6"}
		if rng.Intn(2) == 0 {
			names = names[:2] // name collisions become likely
		}
		pol := sdkPolicy{Name: "authz"}
		for k := rng.Intn(4); k > 0; k-- {
			pol.DenyRules = append(pol.DenyRules, genSDKRule(rng, names))
		}
		for k := 1 + rng.Intn(3); k > 0; k-- {
			pol.AllowRules = append(pol.AllowRules, genSDKRule(rng, names))
		}
		if i == 0 { // must-hit: the F4 witness of DESIGN.md with every seed
			pol = sdkPolicy{Name: "authz",
				DenyRules:  []sdkRule{pathRule("dup", "/pkg.Svc/Get"), pathRule("dup", "/admin.Svc/Delete")},
				AllowRules: []sdkRule{{Name: "all"}}}
		}
		js, _ := json.Marshal(pol)
		r.Progress(fam, i, string(js))
		ic, err := authz.NewStatic(string(js))
		if err != nil {
			r.Count("authz_policies_rejected_by_translator", 1)
			continue
		}
		r.Count("authz_policies_accepted", 1)
		dup := hasDup(pol.DenyRules) || hasDup(pol.AllowRules)
		if dup {
			r.Count("authz_accepted_policies_with_repeated_rule_name", 1)
		}
		for j := 0; j < 8; j++ {
			q := genRequest(rng)
			if i == 0 {
				q.Method = "/pkg.Svc/Get"
			}
			called := false
			_, err := ic.UnaryInterceptor(q.context(), nil, &grpc.UnaryServerInfo{FullMethod: q.Method}, func(context.Context, any) (any, error) {
				called = true
				return nil, nil
			})
			r.Eval(1)
			want := refSDK(pol, q)
			c := sdkCase{Policy: string(js), Request: q, Got: fmt.Sprintf("handler_called=%v err=%v", called, err), Want: want}
			switch {
			case err != nil && status.Code(err) != codes.PermissionDenied:
				r.Violation("authz-unexpected-error", fam, i, c, "interceptor returned %v", err)
			case called != (err == nil):
				r.Violation("authz-handler-error-inconsistent", fam, i, c, "handler called=%v but err=%v", called, err)
			case called != want:
				key := "authz-allowed-but-policy-denies"
				if want {
					key = "authz-denied-but-policy-allows"
				}
				if dup && refSDK(sdkPolicy{DenyRules: lastWins(pol.DenyRules), AllowRules: lastWins(pol.AllowRules)}, q) == called {
					key = keyF4
				}
				r.Violation(key, fam, i, c, "authz policy %s: request %+v -> handler called=%v err=%v; reference (deny if any deny rule matches, else allow iff some allow rule matches) says allowed=%v",
					js, q, called, err, want)
			}
			matchedDeny := false
			for _, dr := range pol.DenyRules {
				if dr.match(q) {
					matchedDeny = true
				}
			}
			r.Nontrivial(fmt.Sprintf("authz/deny%d/allow%d/dup%v/%v/denyhit%v/tls%v", len(pol.DenyRules), len(pol.AllowRules), dup, want, matchedDeny, q.TLS))
			if i < 1 && j < 1 {
				r.Sample(c)
			}
		}
	}
	r.Finish(vlib.Spec{
		Level: "exploration",
		Rule: "PRNG SDK policies (0-3 deny rules, 1-3 allow rules, rule names from a pool of 2 or 6 so that names repeat; principals / paths / header values as exact, 'x*', '*x', '*' patterns derived from the request vocabulary) -> authz.NewStatic; " +
			"8 PRNG requests through UnaryInterceptor for each accepted policy; case 0 is the fixed F4 witness; distinct = (#deny, #allow, repeated name, decision, deny rule hit, TLS)",
		Assumptions: []string{
			"reference = gRFC A43: a rule matches iff (no principals or some principal pattern matches the authenticated identity) and (no paths or some path matches) and every listed header has some matching value; only policies accepted by the translator are judged",
			"patterns contain at most one '*', at the start or the end",
		},
		Floor: 40,
	})
}

func pathRule(name, path string) sdkRule {
	r := sdkRule{Name: name}
	r.Request = &struct {
		Paths   []string    `json:"paths,omitempty"`
		Headers []sdkHeader `json:"headers,omitempty"`
	}{Paths: []string{path}}
	return r
}
