// C39: the REAL xDS priority balancer (internal/xds/balancer/priority, obtained
// through balancer.Get) driven with a recording balancer.ClientConn and stub
// child policies inside testing/synctest bubbles, against a reference model
// written from the property statement and gRFC A56.
//
// After EVERY event (config update adding/removing/reordering priorities, child
// state report, init-timer expiry, cache-timer expiry) the harness waits for
// exact quiescence (synctest.Wait), probes which child policies are active with
// a ResolverError call (the balancer forwards it to every started child and to
// nobody else) and judges:
//
//	I1  the state/picker last given to the parent is the last one of the child
//	    the reference says is in use (first priority that is not started, READY,
//	    IDLE, or CONNECTING inside its init window; else the last priority);
//	I1b that child is actually started;
//	I2  a child that became active in this event has no higher priority that is
//	    still usable (not started / READY / IDLE / inside its init window);
//	I3  while some priority is READY no lower priority is active, and a
//	    deactivated child is really closed (immediately when the sub-balancer
//	    cache is disabled, within DefaultSubBalancerCloseTimeout otherwise).
//
// R2 note (weakest reading): the statement only demands that lower priorities
// are closed when a higher one becomes READY; the shipped code also stops them
// when a higher one becomes IDLE or re-enters its init window.  That stronger
// behaviour is only *recorded* (counter lower_active_while_higher_usable_nonready),
// not judged.  "Closed" is read as gRFC A56 defines deactivation: the child stops
// being used at once and its policy object is destroyed after the 15 min cache
// time at the latest.
package c39

import (
	"context"
	"encoding/json"
	"errors"
	"fmt"
	"sort"
	"strings"
	"sync"
	"testing"
	"testing/synctest"
	"time"

	"google.golang.org/grpc/balancer"
	"google.golang.org/grpc/connectivity"
	"google.golang.org/grpc/internal/hierarchy"
	"google.golang.org/grpc/internal/xds/balancer/priority"
	"google.golang.org/grpc/resolver"
	"google.golang.org/grpc/serviceconfig"
	"google.golang.org/grpc/verif/vlib"
)

const (
	polA = "c39_stub_a"
	polB = "c39_stub_b"
)

// ---------------------------------------------------------------------------
// stub child policies (shared builders, routed to the case by BuildOptions.Authority)

type childCfg struct {
	serviceconfig.LoadBalancingConfig `json:"-"`
	Child                             string `json:"child"`
}

var harnesses sync.Map // authority -> *harness

// The child policies are minimal hand-written stubs rather than
// internal/balancer/stub: balancergroup compares builders with != when it takes
// a sub-balancer out of its cache, and stub's builder type (a struct of funcs)
// is not comparable, which panics at run time.  Builders here are pointers.
type childBuilder struct{ pol string }

func (b *childBuilder) Name() string { return b.pol }

func (b *childBuilder) ParseConfig(j json.RawMessage) (serviceconfig.LoadBalancingConfig, error) {
	c := &childCfg{}
	if err := json.Unmarshal(j, c); err != nil {
		return nil, err
	}
	return c, nil
}

func (b *childBuilder) Build(cc balancer.ClientConn, opts balancer.BuildOptions) balancer.Balancer {
	cb := &childBal{cc: cc}
	if v, ok := harnesses.Load(opts.Authority); ok {
		cb.h = v.(*harness)
		cb.h.onBuild(cb, b.pol)
	}
	return cb
}

// childBal is one child policy object.
type childBal struct {
	cc balancer.ClientConn
	h  *harness
}

func (cb *childBal) UpdateClientConnState(s balancer.ClientConnState) error {
	if cb.h != nil {
		cb.h.onUpdate(cb, s)
	}
	return nil
}
func (cb *childBal) ResolverError(err error) {
	if cb.h != nil {
		cb.h.onResolverError(cb, err)
	}
}
func (cb *childBal) UpdateSubConnState(balancer.SubConn, balancer.SubConnState) {}
func (cb *childBal) Close() {
	if cb.h != nil {
		cb.h.onClose(cb)
	}
}
func (cb *childBal) ExitIdle() {}

func init() {
	balancer.Register(&childBuilder{pol: polA})
	balancer.Register(&childBuilder{pol: polB})
}

// idPicker is a child's picker; it is recognised through what Pick returns.
type idPicker struct{ id string }

func (p *idPicker) Pick(balancer.PickInfo) (balancer.PickResult, error) {
	return balancer.PickResult{}, pickErr{p.id}
}

type pickErr struct{ id string }

func (e pickErr) Error() string { return "c39-picker:" + e.id }

const (
	pickerPlaceholder = "<queue:ErrNoSubConnAvailable>"
	pickerAllRemoved  = "<ErrAllPrioritiesRemoved>"
	pickerNone        = "<none>"
)

func pickerID(p balancer.Picker) string {
	if p == nil {
		return pickerNone
	}
	_, err := p.Pick(balancer.PickInfo{Ctx: context.Background(), FullMethodName: "/c39/probe"})
	var pe pickErr
	switch {
	case errors.As(err, &pe):
		return pe.id
	case errors.Is(err, balancer.ErrNoSubConnAvailable):
		return pickerPlaceholder
	case errors.Is(err, priority.ErrAllPrioritiesRemoved):
		return pickerAllRemoved
	case err == nil:
		return "<unknown:nil-error>"
	}
	return "<unknown:" + err.Error() + ">"
}

// ---------------------------------------------------------------------------
// observation side: recording ClientConn + instance table

type inst struct {
	id        int
	pol       string
	bd        *childBal
	child     string // from the first config it received
	updates   int    // UpdateClientConnState calls received
	closed    bool
	lastProbe int // sequence number of the last probe error it received
	// first quiescent point at which it was seen alive but not active
	inactiveSince time.Time
	updatesSeen   int // value of updates at the previous quiescent point
}

type armedReport struct {
	State  connectivity.State
	Picker string
}

type harness struct {
	balancer.ClientConn // nil: satisfies EnforceClientConnEmbedding; every method used is overridden

	mu           sync.Mutex
	insts        []*inst
	byBD         map[*childBal]*inst
	armed        map[string]armedReport // child name -> inline report on its next UpdateClientConnState
	inlineFired  []string               // "child=state/picker"
	parent       balancer.State
	parentN      int
	resolveNow   int
	probeSeq     int
	unknownChild int
}

func (h *harness) UpdateState(s balancer.State) {
	h.mu.Lock()
	h.parent = s
	h.parentN++
	h.mu.Unlock()
}
func (h *harness) ResolveNow(resolver.ResolveNowOptions) {
	h.mu.Lock()
	h.resolveNow++
	h.mu.Unlock()
}
func (h *harness) Target() string { return "c39:///verif" }
func (h *harness) NewSubConn([]resolver.Address, balancer.NewSubConnOptions) (balancer.SubConn, error) {
	return nil, errors.New("c39: stub children create no SubConns")
}
func (h *harness) RemoveSubConn(balancer.SubConn)                       {}
func (h *harness) UpdateAddresses(balancer.SubConn, []resolver.Address) {}

func (h *harness) onBuild(bd *childBal, pol string) {
	h.mu.Lock()
	in := &inst{id: len(h.insts), pol: pol, bd: bd, lastProbe: -1}
	h.insts = append(h.insts, in)
	h.byBD[bd] = in
	h.mu.Unlock()
}

func (h *harness) onUpdate(bd *childBal, s balancer.ClientConnState) {
	h.mu.Lock()
	in := h.byBD[bd]
	var fire *armedReport
	if in != nil {
		in.updates++
		if c, ok := s.BalancerConfig.(*childCfg); ok && c != nil {
			in.child = c.Child
		} else {
			h.unknownChild++
		}
		if a, ok := h.armed[in.child]; ok {
			delete(h.armed, in.child)
			fire = &a
			h.inlineFired = append(h.inlineFired, fmt.Sprintf("%s=%v/%s", in.child, a.State, a.Picker))
		}
	}
	h.mu.Unlock()
	if fire != nil {
		// a child policy reporting its state inline, from inside UpdateClientConnState
		bd.cc.UpdateState(balancer.State{ConnectivityState: fire.State, Picker: &idPicker{id: fire.Picker}})
	}
}

func (h *harness) onResolverError(bd *childBal, err error) {
	var pe probeErr
	if !errors.As(err, &pe) {
		return
	}
	h.mu.Lock()
	if in := h.byBD[bd]; in != nil {
		in.lastProbe = pe.seq
	}
	h.mu.Unlock()
}

func (h *harness) onClose(bd *childBal) {
	h.mu.Lock()
	if in := h.byBD[bd]; in != nil {
		in.closed = true
	}
	h.mu.Unlock()
}

type probeErr struct{ seq int }

func (e probeErr) Error() string { return fmt.Sprintf("c39 probe %d", e.seq) }

// ---------------------------------------------------------------------------
// reference model (gRFC A56 + the statement)

type mChild struct {
	name, pol string
	started   bool
	state     connectivity.State // the state the child policy is in as far as the parent can know
	picker    string
	// A56: "seen READY or IDLE more recently than TRANSIENT_FAILURE"; the failover
	// (init) timer is (re)started on CONNECTING only while this holds, and the
	// timer's expiry counts as a failure.
	seenReadySinceTF bool
	timer            time.Time // init-window deadline; zero = not pending
}

type mInst struct {
	pol         string
	reported    bool
	state       connectivity.State
	picker      string
	cachedUntil time.Time // zero = active
	updates     int       // configs delivered to the object
}

type qItem struct {
	name   string
	state  connectivity.State
	picker string
}

type model struct {
	now          time.Time
	closeTimeout time.Duration
	initTimeout  time.Duration
	prios        []string
	children     map[string]*mChild
	live         map[string]*mInst // child name -> its live policy object (active or cached)
	inUse        string
	armed        map[string]armedReport
	queue        []qItem
	inhibit      bool
	ambiguous    bool // two balancer timers expired at the same instant

	// per-event outputs
	inlinePredicted []string
	builds          int
	cacheReuses     int
	failovers       int
	initExpiries    int
	cacheExpiries   int
	lastSwitch      string
}

func newModel(now time.Time, closeTimeout time.Duration) *model {
	return &model{now: now, closeTimeout: closeTimeout, initTimeout: priority.DefaultPriorityInitTimeout,
		children: map[string]*mChild{}, live: map[string]*mInst{}, armed: map[string]armedReport{}}
}

func (m *model) placeholder(c *mChild) {
	c.state, c.picker = connectivity.Connecting, pickerPlaceholder
}

func (m *model) usable(c *mChild) bool {
	return !c.started || c.state == connectivity.Ready || c.state == connectivity.Idle ||
		(c.state == connectivity.Connecting && !c.timer.IsZero())
}

// deliverConfig: the child's policy object receives a config; an armed inline
// responder reports from inside that call.
func (m *model) deliverConfig(name string) {
	if in := m.live[name]; in != nil {
		in.updates++
	}
	a, ok := m.armed[name]
	if !ok {
		return
	}
	delete(m.armed, name)
	in := m.live[name]
	in.reported, in.state, in.picker = true, a.State, a.Picker
	m.queue = append(m.queue, qItem{name, a.State, a.Picker})
	m.inlinePredicted = append(m.inlinePredicted, fmt.Sprintf("%s=%v/%s", name, a.State, a.Picker))
}

func (m *model) start(c *mChild) {
	c.started = true
	in := m.live[c.name]
	if in != nil && in.pol != c.pol {
		delete(m.live, c.name) // cached object of another policy type: destroyed
		in = nil
	}
	if in != nil {
		// reactivated within the cache time: the same policy object is reused and is
		// in whatever state it last reported
		in.cachedUntil = time.Time{}
		m.cacheReuses++
		if in.reported {
			m.queue = append(m.queue, qItem{c.name, in.state, in.picker})
		}
	} else {
		in = &mInst{pol: c.pol}
		m.live[c.name] = in
		m.builds++
	}
	c.timer = m.now.Add(m.initTimeout)
	c.seenReadySinceTF = true
	m.deliverConfig(c.name)
}

func (m *model) stop(c *mChild, immediate bool) {
	if !c.started {
		return
	}
	c.started = false
	c.timer = time.Time{}
	m.placeholder(c)
	in := m.live[c.name]
	if in == nil {
		return
	}
	if immediate || m.closeTimeout == 0 {
		delete(m.live, c.name)
	} else {
		in.cachedUntil = m.now.Add(m.closeTimeout)
	}
}

func (m *model) sync(why string) {
	for p, name := range m.prios {
		c := m.children[name]
		if !(m.usable(c) || p == len(m.prios)-1) {
			continue
		}
		for _, low := range m.prios[p+1:] {
			m.stop(m.children[low], false)
		}
		if m.inUse != name {
			m.failovers++
			m.lastSwitch = why
		}
		m.inUse = name
		if !c.started {
			m.start(c)
		}
		return
	}
}

func (m *model) apply(q qItem) {
	c := m.children[q.name]
	if c == nil || !c.started {
		return // a deactivated child's reports are not used
	}
	c.state, c.picker = q.state, q.picker
	switch q.state {
	case connectivity.Ready, connectivity.Idle:
		c.seenReadySinceTF = true
		c.timer = time.Time{}
	case connectivity.TransientFailure:
		c.seenReadySinceTF = false
		c.timer = time.Time{}
	case connectivity.Connecting:
		if c.seenReadySinceTF && c.timer.IsZero() {
			c.timer = m.now.Add(m.initTimeout)
		}
	}
	if !m.inhibit {
		m.sync("report:" + q.state.String())
	}
}

func (m *model) drain() {
	for len(m.queue) > 0 {
		q := m.queue[0]
		m.queue = m.queue[1:]
		m.apply(q)
	}
}

type cfgChild struct {
	Pol      string `json:"pol"`
	IgnoreRR bool   `json:"ignore_rr"`
}

func (m *model) config(prios []string, ch map[string]cfgChild, mid func()) {
	names := make([]string, 0, len(ch))
	for n := range ch {
		names = append(names, n)
	}
	sort.Strings(names)
	for _, n := range names {
		c := m.children[n]
		if c == nil {
			c = &mChild{name: n, pol: ch[n].Pol}
			m.placeholder(c)
			m.children[n] = c
			continue
		}
		if c.pol != ch[n].Pol {
			m.stop(c, true)
			c.pol = ch[n].Pol
		}
		if c.started {
			m.deliverConfig(n)
		}
	}
	for n, c := range m.children {
		if _, ok := ch[n]; !ok {
			m.stop(c, true) // removed from the config: destroyed (child policy cache env var is off)
			delete(m.children, n)
		}
	}
	m.prios = append([]string(nil), prios...)
	if len(prios) == 0 {
		m.inUse = ""
		m.queue = nil
		return
	}
	// every child gets to report before a priority is (re)chosen
	m.inhibit = true
	if mid != nil {
		mid() // (an init timer expiring here only clears the timer: no priority is chosen until the update is complete)
	}
	m.drain()
	m.inhibit = false
	m.sync("config")
	m.drain()
}

// nextDeadline returns the earliest pending model timer.
func (m *model) nextDeadline() (time.Time, string, string) {
	var best time.Time
	kind, who := "", ""
	names := make([]string, 0, len(m.children))
	for n := range m.children {
		names = append(names, n)
	}
	sort.Strings(names)
	for _, n := range names {
		c := m.children[n]
		if !c.timer.IsZero() && (best.IsZero() || c.timer.Before(best)) {
			best, kind, who = c.timer, "init", n
		}
	}
	lnames := make([]string, 0, len(m.live))
	for n := range m.live {
		lnames = append(lnames, n)
	}
	sort.Strings(lnames)
	for _, n := range lnames {
		in := m.live[n]
		if !in.cachedUntil.IsZero() && (best.IsZero() || in.cachedUntil.Before(best)) {
			best, kind, who = in.cachedUntil, "cache", n
		}
	}
	return best, kind, who
}

func (m *model) advanceTo(t time.Time) {
	for {
		d, kind, who := m.nextDeadline()
		if d.IsZero() || d.After(t) {
			break
		}
		m.now = d
		// Two timers of the balancer that expire at the same instant run in an
		// undefined order; an init timer racing a cache timer (or another init
		// timer) can legitimately end either way, so such a history is not judged.
		for n, c := range m.children {
			if c.timer.Equal(d) && !(kind == "init" && n == who) {
				m.ambiguous = true
			}
		}
		if kind == "init" {
			for _, in := range m.live {
				if in.cachedUntil.Equal(d) {
					m.ambiguous = true
				}
			}
		}
		switch kind {
		case "init":
			c := m.children[who]
			c.timer = time.Time{}
			c.seenReadySinceTF = false
			m.initExpiries++
			m.sync("init-timeout")
			m.drain()
		case "cache":
			delete(m.live, who)
			m.cacheExpiries++
		}
	}
	m.now = t
}

func (m *model) isDeadline(t time.Time) bool {
	for _, c := range m.children {
		if c.timer.Equal(t) {
			return true
		}
	}
	for _, in := range m.live {
		if in.cachedUntil.Equal(t) {
			return true
		}
	}
	return false
}

// ---------------------------------------------------------------------------
// the case driver

type obsInst struct {
	in      *inst
	active  bool
	updates int // configs the object received (snapshot taken under the harness lock)
	pol     string
	id      int
}

type observation struct {
	now         time.Time
	parent      balancer.State
	parentN     int
	built       int
	alive       map[string][]obsInst
	activeNames []string
	newlyActive []*inst
	inlineFired []string
}

type verdict struct {
	key, msg string
	div      string
	nonReady int
}

func (m *model) views() []string {
	var out []string
	for _, n := range m.prios {
		c := m.children[n]
		w := ""
		if !c.timer.IsZero() {
			w = fmt.Sprintf(" init-window-left=%v", c.timer.Sub(m.now))
		}
		out = append(out, fmt.Sprintf("%s[%s started=%v %v/%s%s]", n, c.pol, c.started, c.state, c.picker, w))
	}
	return out
}

type evRec struct {
	T    string `json:"t"`
	Kind string `json:"kind"`
	Desc string `json:"desc"`
}

type caseDetail struct {
	CloseTimeout string   `json:"close_timeout"`
	Events       []evRec  `json:"events"`
	Priorities   []string `json:"priorities"`
	InUseModel   string   `json:"in_use_model"`
	Parent       string   `json:"parent_observed"`
	ParentWant   string   `json:"parent_expected"`
	Active       []string `json:"active_observed"`
	ActiveModel  []string `json:"active_model"`
	Views        []string `json:"model_views"`
}

var stateChoices = []connectivity.State{connectivity.Connecting, connectivity.Ready, connectivity.Idle, connectivity.TransientFailure}

func buildJSON(prios []string, ch map[string]cfgChild) string {
	var sb strings.Builder
	sb.WriteString(`{"priorities":[`)
	for i, p := range prios {
		if i > 0 {
			sb.WriteByte(',')
		}
		fmt.Fprintf(&sb, "%q", p)
	}
	sb.WriteString(`],"children":{`)
	names := make([]string, 0, len(ch))
	for n := range ch {
		names = append(names, n)
	}
	sort.Strings(names)
	for i, n := range names {
		if i > 0 {
			sb.WriteByte(',')
		}
		fmt.Fprintf(&sb, `%q:{"config":[{%q:{"child":%q}}],"ignoreReresolutionRequests":%v}`, n, ch[n].Pol, n, ch[n].IgnoreRR)
	}
	sb.WriteString(`}}`)
	return sb.String()
}

func runCase(t *testing.T, r *vlib.Run, fam string, idx int, closeTimeout time.Duration, raceBias int) {
	rng := r.Rand(fam, idx)
	auth := fmt.Sprintf("c39-%s-%d-%d", fam, idx, r.Seed())
	h := &harness{byBD: map[*childBal]*inst{}, armed: map[string]armedReport{}}
	harnesses.Store(auth, h)
	defer harnesses.Delete(auth)

	bldr := balancer.Get(priority.Name)
	if bldr == nil {
		r.Inconclusive("priority balancer %q is not registered", priority.Name)
		return
	}
	parser := bldr.(balancer.ConfigParser)
	pb := bldr.Build(h, balancer.BuildOptions{Authority: auth})
	defer pb.Close()

	m := newModel(time.Now(), closeTimeout)
	det := &caseDetail{CloseTimeout: closeTimeout.String()}
	pool := []string{"c0", "c1", "c2", "c3", "c4"}
	polOf := map[string]string{}
	pickerSeq := 0
	newPicker := func(name string) string {
		pickerSeq++
		return fmt.Sprintf("%s#%d", name, pickerSeq)
	}
	prevActive := map[int]bool{}
	configured := false
	logEv := func(kind, desc string) {
		det.Events = append(det.Events, evRec{T: time.Since(startOfBubble).String(), Kind: kind, Desc: desc})
	}
	_ = logEv

	genConfig := func() ([]string, map[string]cfgChild) {
		var prios []string
		switch k := rng.Intn(10); {
		case k == 0 && configured:
			// all priorities removed
		case k <= 3 && configured && len(m.prios) > 0:
			// local edit of the current list: insert / remove / swap / move
			prios = append(prios, m.prios...)
			switch rng.Intn(4) {
			case 0: // insert an unused name anywhere
				var unused []string
				for _, n := range pool {
					if !contains(prios, n) {
						unused = append(unused, n)
					}
				}
				if len(unused) > 0 {
					n := unused[rng.Intn(len(unused))]
					at := rng.Intn(len(prios) + 1)
					prios = append(prios[:at], append([]string{n}, prios[at:]...)...)
				}
			case 1: // remove one
				at := rng.Intn(len(prios))
				prios = append(prios[:at], prios[at+1:]...)
			case 2: // swap two
				if len(prios) > 1 {
					a, b := rng.Intn(len(prios)), rng.Intn(len(prios))
					prios[a], prios[b] = prios[b], prios[a]
				}
			default: // rotate
				prios = append(prios[1:], prios[0])
			}
		case k <= 5 && configured:
			// same list again (pure resend, maybe with a policy change below)
			prios = append(prios, m.prios...)
		default:
			perm := rng.Perm(len(pool))
			n := 1 + rng.Intn(4)
			for _, j := range perm[:n] {
				prios = append(prios, pool[j])
			}
		}
		ch := map[string]cfgChild{}
		for _, n := range prios {
			if polOf[n] == "" {
				polOf[n] = vlib.Pick(rng, polA, polB)
			} else if rng.Intn(12) == 0 {
				if polOf[n] == polA {
					polOf[n] = polB
				} else {
					polOf[n] = polA
				}
			}
			ch[n] = cfgChild{Pol: polOf[n], IgnoreRR: rng.Intn(3) == 0}
		}
		return prios, ch
	}

	// observe: exact quiescence, probe of the active children, snapshot.
	observe := func() *observation {
		synctest.Wait()
		h.mu.Lock()
		h.probeSeq++
		seq := h.probeSeq
		h.mu.Unlock()
		pb.ResolverError(probeErr{seq})
		synctest.Wait()
		o := &observation{now: time.Now(), alive: map[string][]obsInst{}}
		h.mu.Lock()
		o.parent, o.parentN = h.parent, h.parentN
		o.built = len(h.insts)
		curActive := map[int]bool{}
		for _, in := range h.insts {
			if in.closed {
				continue
			}
			act := in.lastProbe == seq
			o.alive[in.child] = append(o.alive[in.child], obsInst{in: in, active: act, updates: in.updates, pol: in.pol, id: in.id})
			if act {
				o.activeNames = append(o.activeNames, in.child)
				curActive[in.id] = true
				if !prevActive[in.id] {
					o.newlyActive = append(o.newlyActive, in)
				}
				in.inactiveSince = time.Time{}
			} else if in.inactiveSince.IsZero() || in.updates != in.updatesSeen {
				// (a config delivered since the last check means it was reactivated and
				// deactivated again in between: the cache time runs from the later stop)
				in.inactiveSince = o.now
			}
			in.updatesSeen = in.updates
		}
		o.inlineFired = append([]string(nil), h.inlineFired...)
		h.inlineFired = nil
		h.mu.Unlock()
		prevActive = curActive
		sort.Strings(o.activeNames)
		sort.Strings(o.inlineFired)
		return o
	}

	fillDetail := func(m *model, o *observation) {
		var activeModel []string
		for n, c := range m.children {
			if c.started {
				activeModel = append(activeModel, n)
			}
		}
		sort.Strings(activeModel)
		det.Priorities = m.prios
		det.InUseModel = m.inUse
		det.Active, det.ActiveModel = o.activeNames, activeModel
		det.Parent = fmt.Sprintf("%v/%s (update #%d)", o.parent.ConnectivityState, pickerID(o.parent.Picker), o.parentN)
		det.Views = m.views()
		det.ParentWant = ""
		if len(m.prios) == 0 {
			det.ParentWant = "TRANSIENT_FAILURE/" + pickerAllRemoved
		} else if c := m.children[m.inUse]; c != nil {
			det.ParentWant = fmt.Sprintf("%v/%s", c.state, c.picker)
		}
	}

	// judge compares an observation with a reference state; it has no side effects.
	judge := func(m *model, o *observation, evKind string) verdict {
		idxOf := func(name string) int {
			for i, n := range m.prios {
				if n == name {
					return i
				}
			}
			return -1
		}
		v := verdict{}
		bad := func(key, format string, a ...any) verdict {
			v.key, v.msg = key, fmt.Sprintf(format, a...)
			return v
		}
		parentPicker := pickerID(o.parent.Picker)
		// I1: what the parent was told
		if len(m.prios) == 0 {
			if configured && (o.parent.ConnectivityState != connectivity.TransientFailure || parentPicker != pickerAllRemoved) {
				return bad("no-priorities-not-transient-failure", "all priorities removed, parent has %v/%s, want TRANSIENT_FAILURE/%s", o.parent.ConnectivityState, parentPicker, pickerAllRemoved)
			}
		} else {
			c := m.children[m.inUse]
			if parentPicker != c.picker {
				return bad("parent-picker-not-child-in-use", "after %s: parent's picker is %s, the child in use is %q (priority %d of %v) whose picker is %s; model views %v",
					evKind, parentPicker, m.inUse, idxOf(m.inUse), m.prios, c.picker, m.views())
			}
			if o.parent.ConnectivityState != c.state {
				return bad("parent-state-not-child-in-use", "after %s: parent's state is %v, the child in use %q is %v", evKind, o.parent.ConnectivityState, m.inUse, c.state)
			}
			// I1b: the child in use is really running
			if !contains(o.activeNames, m.inUse) {
				return bad("child-in-use-not-active", "after %s: the child in use %q (priority %d of %v) is not among the active children %v", evKind, m.inUse, idxOf(m.inUse), m.prios, o.activeNames)
			}
		}
		// I2: newly activated children
		for _, in := range o.newlyActive {
			p := idxOf(in.child)
			if p < 0 {
				continue
			}
			for q := 0; q < p; q++ {
				hc := m.children[m.prios[q]]
				if m.usable(hc) {
					return bad("lower-started-before-higher-failed", "after %s: child %q (priority %d) was activated although higher priority %q is still usable (%v, started=%v, init window pending=%v); priorities %v",
						evKind, in.child, p, hc.name, hc.state, hc.started, !hc.timer.IsZero(), m.prios)
				}
			}
		}
		// I3: nothing active below a READY priority
		for _, name := range o.activeNames {
			p := idxOf(name)
			for q := 0; q < p; q++ {
				hc := m.children[m.prios[q]]
				if hc.started && hc.state == connectivity.Ready {
					return bad("lower-active-while-higher-ready", "after %s: child %q (priority %d) is still active although priority %d (%q) is READY; priorities %v", evKind, name, p, q, hc.name, m.prios)
				}
				if m.usable(hc) {
					v.nonReady++
				}
			}
		}
		// I3 (closing): a deactivated child is destroyed, at the latest after the cache time
		for name, os := range o.alive {
			for _, x := range os {
				if x.active {
					continue
				}
				if closeTimeout == 0 || o.now.Sub(x.in.inactiveSince) > closeTimeout {
					return bad("stopped-child-not-closed", "after %s: policy object #%d of child %q is not active since %v (now %v) but was never closed (close timeout %v)",
						evKind, x.in.id, name, x.in.inactiveSince.Sub(startOfBubble), o.now.Sub(startOfBubble), closeTimeout)
				}
			}
		}
		// anything else that differs from the reference is recorded, not judged, and ends the case
		var activeModel []string
		for n, c := range m.children {
			if c.started {
				activeModel = append(activeModel, n)
			}
		}
		sort.Strings(activeModel)
		if strings.Join(o.activeNames, ",") != strings.Join(activeModel, ",") {
			v.div = fmt.Sprintf("active %v, model %v", o.activeNames, activeModel)
		}
		for name, os := range o.alive {
			mi := m.live[name]
			if len(os) != 1 || mi == nil || mi.pol != os[0].pol {
				v.div += fmt.Sprintf(" live objects of %q: %d, model %+v", name, len(os), mi)
			} else if mi.updates != os[0].updates {
				v.div += fmt.Sprintf(" object of %q received %d configs, model %d", name, os[0].updates, mi.updates)
			}
		}
		for name := range m.live {
			if len(o.alive[name]) == 0 {
				v.div += fmt.Sprintf(" model has a live object for %q, none observed", name)
			}
		}
		if o.built != m.builds {
			v.div += fmt.Sprintf(" %d policy objects were built, model %d", o.built, m.builds)
		}
		pred := append([]string(nil), m.inlinePredicted...)
		sort.Strings(pred)
		if strings.Join(o.inlineFired, ",") != strings.Join(pred, ",") {
			v.div += fmt.Sprintf(" inline reports fired %v, model %v", o.inlineFired, pred)
		}
		return v
	}

	// report turns a verdict into evidence / a violation; false ends the case.
	report := func(m *model, o *observation, v verdict, evKind string) bool {
		r.Count("quiescent_checks", 1)
		m.inlinePredicted = nil
		fillDetail(m, o)
		if v.key != "" {
			r.Violation(v.key, fam, idx, det, "%s", v.msg)
			return false
		}
		if v.nonReady > 0 {
			r.Count("lower_active_while_higher_usable_nonready", int64(v.nonReady))
		}
		if v.div != "" {
			r.Count("model_divergence_not_judged", 1)
			r.Sample(map[string]any{"divergence": v.div, "case": idx, "family": fam, "after": evKind, "views": det.Views})
			t.Logf("c39 %s/%d: model divergence (not judged) after %s: %s", fam, idx, evKind, v.div)
			return false
		}
		if len(m.prios) > 0 {
			c := m.children[m.inUse]
			win := ""
			if !c.timer.IsZero() {
				win = "+window"
			}
			p := 0
			for i, n := range m.prios {
				if n == m.inUse {
					p = i
				}
			}
			r.Nontrivial(fmt.Sprintf("n%d/use%d/%v%s/%s/active%d", len(m.prios), p, c.state, win, evKind, len(o.activeNames)))
		} else {
			r.Nontrivial("n0/" + evKind)
		}
		return true
	}

	check := func(evKind string) bool {
		o := observe()
		return report(m, o, judge(m, o, evKind), evKind)
	}

	// race: the script wakes at EXACTLY the instant the pending init timer expires
	// and, without waiting for quiescence, makes the child report / sends a config
	// update, so the timer's AfterFunc callback genuinely races these events for
	// the balancer's mutex.  Every position of the callback in the event sequence
	// is legal; the observation must be explained by one of them (that one becomes
	// the reference state).  What is never legal: the child's NEW init period
	// (started by READY/IDLE->CONNECTING or a restart during the race) being ended
	// by the OLD timer's callback.
	race := func() (string, bool, bool) {
		now := time.Now()
		m.now = now
		d, dk, who := m.nextDeadline()
		if d.IsZero() || dk != "init" || !d.After(now) {
			return "", false, true
		}
		for n, c := range m.children {
			if n != who && c.timer.Equal(d) {
				return "", false, true
			}
		}
		for _, in := range m.live {
			if in.cachedUntil.Equal(d) || (!in.cachedUntil.IsZero() && in.reported) {
				// a tie with a cache timer, or a cached object whose state would be
				// re-sent concurrently with the racing events: orders multiply, skip
				return "", false, true
			}
		}
		mi := m.live[who]
		if mi == nil || !mi.cachedUntil.IsZero() {
			return "", false, true
		}
		var target *inst
		targetID := -1
		h.mu.Lock()
		for _, in := range h.insts {
			if !in.closed && in.child == who {
				target, targetID = in, in.id
			}
		}
		for n := range h.armed {
			delete(h.armed, n)
		}
		h.mu.Unlock()
		for n := range m.armed {
			delete(m.armed, n)
		}
		if target == nil {
			return "", false, true
		}
		type step struct {
			st  connectivity.State
			pid string
		}
		var steps []step
		var cfgPrios []string
		var cfgCh map[string]cfgChild
		var cfgParsed serviceconfig.LoadBalancingConfig
		var cfgEps []resolver.Endpoint
		seqName := ""
		if rng.Intn(5) == 0 {
			cfgPrios, cfgCh = genConfig()
			js := buildJSON(cfgPrios, cfgCh)
			var err error
			if cfgParsed, err = parser.ParseConfig(json.RawMessage(js)); err != nil {
				r.Inconclusive("generated priority config rejected: %v (%s)", err, js)
				return "", false, false
			}
			for _, n := range cfgPrios {
				ep := resolver.Endpoint{Addresses: []resolver.Address{{Addr: n + "-0:1"}}}
				cfgEps = append(cfgEps, hierarchy.SetInEndpoint(ep, []string{n}))
			}
			seqName = "config"
			logEv("race-config-at-init-expiry", js)
		} else {
			pats := [][]connectivity.State{
				{connectivity.Ready, connectivity.Connecting},
				{connectivity.Idle, connectivity.Connecting},
				{connectivity.Ready, connectivity.Connecting},
				{connectivity.Ready},
				{connectivity.TransientFailure},
				{connectivity.Connecting},
				{connectivity.TransientFailure, connectivity.Connecting},
				{connectivity.Ready, connectivity.Connecting, connectivity.Ready},
				{connectivity.Idle, connectivity.Connecting, connectivity.TransientFailure},
				{connectivity.Connecting, connectivity.Ready, connectivity.Connecting},
			}
			for _, st := range pats[rng.Intn(len(pats))] {
				steps = append(steps, step{st, newPicker(who)})
				seqName += st.String()[:2]
			}
			logEv("race-reports-at-init-expiry", fmt.Sprintf("object #%d of %s: %s", targetID, who, seqName))
		}
		// wake together with the timer
		time.Sleep(d.Sub(now))
		if cfgParsed != nil {
			if err := pb.UpdateClientConnState(balancer.ClientConnState{ResolverState: resolver.State{Endpoints: cfgEps}, BalancerConfig: cfgParsed}); err != nil {
				r.Violation("config-update-error", fam, idx, det, "UpdateClientConnState = %v", err)
				return "", false, false
			}
		} else {
			for _, s := range steps {
				target.bd.cc.UpdateState(balancer.State{ConnectivityState: s.st, Picker: &idPicker{id: s.pid}})
			}
		}
		o := observe()

		expire := func(cm *model) {
			if c := cm.children[who]; c != nil && c.timer.Equal(d) {
				c.timer = time.Time{}
				c.seenReadySinceTF = false
				cm.initExpiries++
				if !cm.inhibit {
					cm.sync("init-timeout")
					cm.drain()
				}
			}
		}
		applyStep := func(cm *model, s step) {
			if in := cm.live[who]; in != nil {
				in.reported, in.state, in.picker = true, s.st, s.pid
			}
			cm.queue = append(cm.queue, qItem{who, s.st, s.pid})
			cm.drain()
		}
		build := func(pos int) *model {
			cm := cloneModel(m)
			cm.now = d
			if cfgParsed != nil {
				switch pos {
				case 0:
					expire(cm)
					cm.config(cfgPrios, cfgCh, nil)
				case 1:
					cm.config(cfgPrios, cfgCh, func() { expire(cm) })
				default:
					cm.config(cfgPrios, cfgCh, nil)
					expire(cm)
				}
				return cm
			}
			for i, s := range steps {
				if i == pos {
					expire(cm)
				}
				applyStep(cm, s)
			}
			if pos >= len(steps) {
				expire(cm)
			}
			return cm
		}
		npos := len(steps) + 1
		if cfgParsed != nil {
			npos = 3
			configured = true
		}
		var matched []int
		var cands []*model
		var verdicts []verdict
		for pos := 0; pos < npos; pos++ {
			cm := build(pos)
			v := judge(cm, o, "race")
			cands = append(cands, cm)
			verdicts = append(verdicts, v)
			if v.key == "" && v.div == "" {
				matched = append(matched, pos)
			}
		}
		r.Count("race_events", 1)
		kind := "race:" + seqName
		if len(matched) == 0 {
			// does "the old timer's callback ended the NEW init period" explain it?
			stale := build(npos - 1)
			if c := stale.children[who]; c != nil && !c.timer.IsZero() {
				c.timer = time.Time{}
				c.seenReadySinceTF = false
				stale.sync("stale-timer")
				stale.drain()
				if sv := judge(stale, o, "race"); sv.key == "" && sv.div == "" {
					fillDetail(cands[npos-1], o)
					r.Violation("init-period-cut-short-by-stale-timer", fam, idx, det,
						"child %q reported %s at the very instant its init timer expired; whatever the order, %q is now inside a NEW init period (until %v) and must stay the child in use, but the balancer behaves as if that period had already timed out: parent has %s, active children %v (reference, callback last: in use %q, views %v)",
						who, seqName, who, cands[npos-1].children[who].timer.Sub(startOfBubble), det.Parent, o.activeNames, cands[npos-1].inUse, cands[npos-1].views())
					return kind, true, false
				}
			}
			// report against the order "all events first, stopped timer's callback last"
			last := npos - 1
			m = cands[last]
			v := verdicts[last]
			if v.key == "" {
				r.Count("race_unexplained_divergence", 1)
			}
			return kind, true, report(m, o, v, kind+"(no order of the timer callback explains the outcome)")
		}
		first, lastPos := matched[0], matched[len(matched)-1]
		order := "between"
		switch {
		case len(matched) == npos:
			order = "indistinguishable"
		case first == 0 && lastPos != npos-1:
			order = "timer-first"
		case lastPos == npos-1 && first != 0:
			order = "events-first"
		}
		r.Count("race_order_"+order, 1)
		m = cands[lastPos]
		return kind + "/" + order, true, report(m, o, verdicts[lastPos], kind+"/"+order)
	}

	nEvents := 25 + rng.Intn(40)
	for e := 0; e < nEvents; e++ {
		k := rng.Intn(100)
		var kind string
		if configured && rng.Intn(100) < raceBias {
			rk, done, ok := race()
			if !ok {
				break
			}
			if done {
				_ = rk
				continue
			}
		}
		switch {
		case !configured || k < 14:
			prios, ch := genConfig()
			js := buildJSON(prios, ch)
			cfg, err := parser.ParseConfig(json.RawMessage(js))
			if err != nil {
				r.Inconclusive("generated priority config rejected: %v (%s)", err, js)
				return
			}
			var eps []resolver.Endpoint
			for _, n := range prios {
				for a := 0; a < 1+rng.Intn(2); a++ {
					ep := resolver.Endpoint{Addresses: []resolver.Address{{Addr: fmt.Sprintf("%s-%d:1", n, a)}}}
					eps = append(eps, hierarchy.SetInEndpoint(ep, []string{n}))
				}
			}
			kind = "config"
			logEv(kind, js)
			m.now = time.Now()
			m.config(prios, ch, nil)
			if err := pb.UpdateClientConnState(balancer.ClientConnState{ResolverState: resolver.State{Endpoints: eps}, BalancerConfig: cfg}); err != nil {
				r.Violation("config-update-error", fam, idx, det, "UpdateClientConnState(%s) = %v", js, err)
				return
			}
			configured = true
			r.Count("events_config", 1)
		case k < 62:
			// a child policy object (active or cached) reports a state
			type cand struct {
				in    *inst
				child string
				id    int
			}
			h.mu.Lock()
			var cands []cand
			for _, in := range h.insts {
				if !in.closed && in.child != "" {
					cands = append(cands, cand{in, in.child, in.id})
				}
			}
			h.mu.Unlock()
			if len(cands) == 0 {
				continue
			}
			// prefer the children near the one in use
			in := cands[rng.Intn(len(cands))]
			for tries := 0; tries < 2; tries++ {
				if mc := m.children[in.child]; mc != nil && mc.started {
					break
				}
				in = cands[rng.Intn(len(cands))]
			}
			st := stateChoices[rng.Intn(len(stateChoices))]
			if rng.Intn(3) == 0 {
				st = vlib.Pick(rng, connectivity.TransientFailure, connectivity.Connecting)
			}
			pid := newPicker(in.child)
			kind = "report:" + st.String()
			logEv(kind, fmt.Sprintf("object #%d of %s -> %v picker %s", in.id, in.child, st, pid))
			m.now = time.Now()
			if mi := m.live[in.child]; mi != nil {
				mi.reported, mi.state, mi.picker = true, st, pid
				if mi.cachedUntil.IsZero() {
					m.queue = append(m.queue, qItem{in.child, st, pid})
					m.drain()
				} else {
					kind = "report-while-cached:" + st.String()
					r.Count("events_report_while_cached", 1)
				}
			}
			in.in.bd.cc.UpdateState(balancer.State{ConnectivityState: st, Picker: &idPicker{id: pid}})
			r.Count("events_child_report", 1)
		case k < 90:
			// let virtual time pass
			now := time.Now()
			var target time.Time
			d, dk, _ := m.nextDeadline()
			kind = "sleep"
			switch c := rng.Intn(10); {
			case c < 3 && !d.IsZero():
				target = d.Add(time.Nanosecond) // just after the next init/cache deadline
				kind = "sleep-past-" + dk + "-deadline"
			case c < 5 && !d.IsZero() && d.Sub(now) > time.Nanosecond:
				target = d.Add(-time.Nanosecond) // just before it
				kind = "sleep-until-just-before-" + dk + "-deadline"
			case c < 8:
				target = now.Add(time.Duration(1+rng.Intn(9000)) * time.Millisecond)
			case c < 9:
				target = now.Add(time.Duration(10+rng.Intn(50)) * time.Second)
			default:
				target = now.Add(closeTimeout + time.Duration(rng.Intn(120))*time.Second)
				kind = "sleep-long"
			}
			// never stop exactly on a deadline: timers of the same instant have no defined order
			m.now = now
			for tries := 0; tries < 8; tries++ {
				probe := newModelCopyDeadlines(m, target)
				if !probe {
					break
				}
				target = target.Add(time.Nanosecond)
			}
			if !target.After(now) {
				continue
			}
			logEv(kind, target.Sub(now).String())
			before := m.initExpiries
			beforeC := m.cacheExpiries
			m.advanceTo(target)
			if m.ambiguous {
				r.Count("cases_cut_at_same_instant_timer_tie", 1)
				e = nEvents
				continue
			}
			time.Sleep(target.Sub(now))
			if m.initExpiries > before {
				kind += "+init-expired"
				r.Count("init_timer_expiries", int64(m.initExpiries-before))
			}
			if m.cacheExpiries > beforeC {
				r.Count("cache_expiries", int64(m.cacheExpiries-beforeC))
			}
			r.Count("events_sleep", 1)
		default:
			// arm a child policy to report inline from its next UpdateClientConnState
			if len(m.prios) == 0 {
				continue
			}
			name := pool[rng.Intn(len(pool))]
			st := stateChoices[rng.Intn(len(stateChoices))]
			a := armedReport{State: st, Picker: newPicker(name) + "!inline"}
			h.mu.Lock()
			h.armed[name] = a
			h.mu.Unlock()
			m.armed[name] = a
			logEv("arm", fmt.Sprintf("%s will report %v inline", name, st))
			r.Count("events_arm_inline", 1)
			continue
		}
		if !check(kind) {
			break
		}
	}
	r.Eval(1)
	r.Count("child_policy_builds", int64(m.builds))
	r.Count("cache_reactivations", int64(m.cacheReuses))
	r.Count("in_use_switches", int64(m.failovers))
	if idx < 2 {
		n := len(det.Events)
		if n > 12 {
			n = 12
		}
		r.Sample(map[string]any{"family": fam, "case": idx, "first_events": det.Events[:n], "final_views": det.Views, "parent": det.Parent})
	}
}

// newModelCopyDeadlines reports whether t coincides with a deadline that exists
// now or that would be created while advancing to t (start of a child at an
// expiry creates a new init window; stopping creates a cache deadline).
func newModelCopyDeadlines(m *model, t time.Time) bool {
	c := cloneModel(m)
	// advance to just before t and look at the pending deadlines
	c.advanceTo(t.Add(-time.Nanosecond))
	return c.isDeadline(t)
}

func cloneModel(m *model) *model {
	c := *m
	c.children = map[string]*mChild{}
	for n, ch := range m.children {
		cc := *ch
		c.children[n] = &cc
	}
	c.live = map[string]*mInst{}
	for n, in := range m.live {
		ci := *in
		c.live[n] = &ci
	}
	c.armed = map[string]armedReport{}
	for n, a := range m.armed {
		c.armed[n] = a
	}
	c.prios = append([]string(nil), m.prios...)
	c.queue = append([]qItem(nil), m.queue...)
	c.inlinePredicted = nil
	return &c
}

func contains(xs []string, x string) bool {
	for _, y := range xs {
		if y == x {
			return true
		}
	}
	return false
}

// all bubbles start at the same fake instant
var startOfBubble = time.Date(2000, 1, 1, 0, 0, 0, 0, time.UTC)

func TestVerifC39(t *testing.T) {
	r := vlib.Start(t, "C39")
	defTimeout := priority.DefaultSubBalancerCloseTimeout
	phases := []struct {
		fam     string
		timeout time.Duration
		n       int
		race    int // per-event probability (%) of trying an init-timer race
	}{
		{"cache", defTimeout, r.N(1400, 30000), 4},
		{"nocache", 0, r.N(600, 12000), 4},
		{"race", 0, r.N(1500, 20000), 45},
	}
	const workers = 8
	for _, ph := range phases {
		// the sub-balancer cache time is a package variable read at Build; it is only
		// written here, between phases, while no balancer exists
		priority.DefaultSubBalancerCloseTimeout = ph.timeout
		t.Run(ph.fam, func(t *testing.T) {
			for w := 0; w < workers; w++ {
				w := w
				t.Run(fmt.Sprintf("w%d", w), func(t *testing.T) {
					t.Parallel()
					for i := w; i < ph.n; i += workers {
						if !r.Want(ph.fam, i) {
							continue
						}
						synctest.Test(t, func(t *testing.T) {
							runCase(t, r, ph.fam, i, ph.timeout, ph.race)
						})
					}
				})
			}
		})
	}
	priority.DefaultSubBalancerCloseTimeout = defTimeout
	r.Finish(vlib.Spec{
		Level: "exploration",
		Rule: "PRNG histories of 25-64 events per case (config updates that add/remove/insert/swap/rotate priorities and change child policy types, child state reports incl. from cached children, inline reports from inside UpdateClientConnState, sleeps to 1ns before/after init-timer and cache deadlines, and RACES: the script wakes at exactly the instant the init timer expires and lets the child report READY/IDLE/TF/CONNECTING sequences or sends a config update without waiting, so the timer callback races them for the balancer mutex; every position of the callback in the sequence is accepted, the matching one becomes the reference) against the real priority balancer in a synctest bubble; " +
			"three families: default 15 min sub-balancer cache, cache disabled, and a race-heavy one (cache disabled); every event is followed by exact quiescence, a ResolverError probe of the active children and the I1-I3 checks; distinct = (number of priorities, index and state of the child in use, init window pending, event kind, number of active children)",
		Assumptions: []string{
			"child policies are stubs that report exactly what the script says; the set of active children is observed through ResolverError forwarding",
			"reference model written from the statement and gRFC A56 (failover timer restarted on CONNECTING only if READY/IDLE was seen more recently than TRANSIENT_FAILURE or a timeout)",
			"closing of a deactivated child is judged with the gRFC A56 cache time (DefaultSubBalancerCloseTimeout) as upper bound; stopping of lower priorities below an IDLE/CONNECTING priority is recorded, not judged",
			"virtual time (testing/synctest): no verdict depends on wall-clock time; outside race events the harness never stops exactly on a timer deadline, and histories in which two balancer timers expire at the same instant are cut, not judged",
			"race events are only started when no cached child object could re-send a state concurrently (otherwise the set of legal orders is larger than the one enumerated)",
		},
		Floor: 150,
	})
}
