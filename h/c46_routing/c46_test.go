// C46 (part 1, exported API of xdsresource): virtual-host selection, per-route
// matching (path AND headers AND runtime fraction) and the runtime-fraction
// matcher under an ENUMERATED random source, against a reference written from
// the property statement.  Part 2 (first-match route selection, weighted
// clusters, request hash) is the white-box monitor wb/internal_xds_resolver/c46_resolver.go.
package c46

import (
	"fmt"
	"math/rand"
	"strconv"
	"strings"
	"testing"

	"google.golang.org/grpc/internal/xds/matcher"
	"google.golang.org/grpc/internal/xds/xdsclient/xdsresource"
	"google.golang.org/grpc/metadata"
	"google.golang.org/grpc/verif/c47_matchers/refmatch"
	"google.golang.org/grpc/verif/vlib"
)

// keyF5: DESIGN.md §5 F5.  Attributed only when the sole discrepancy is that
// the draw equal to the configured fraction matched.
const keyF5 = "fraction-draw-equal-to-fraction-matches"

const million = 1000000

func q(s string) string { return strconv.QuoteToASCII(s) }

// ---------------------------------------------------------------- virtual hosts

const (
	rankNone = iota
	rankUniversal
	rankPrefix
	rankSuffix
	rankExact
)

// refDomain: does domain match host, and with which rank.  emptyWild reports
// that a '*' would have to match the empty string (implementations differ on
// that; such cases are not judged).
func refDomain(domain, host string) (rank int, ok bool, emptyWild bool) {
	switch {
	case domain == "*":
		return rankUniversal, true, false
	case strings.HasPrefix(domain, "*"):
		suf := domain[1:]
		return rankSuffix, strings.HasSuffix(host, suf), host == suf
	case strings.HasSuffix(domain, "*"):
		pre := domain[:len(domain)-1]
		return rankPrefix, strings.HasPrefix(host, pre), host == pre
	default:
		return rankExact, domain == host, false
	}
}

type vhCase struct {
	Host    string     `json:"host"`
	Domains [][]string `json:"vhost_domains"`
	Got     int        `json:"got_index"`
	Want    []int      `json:"acceptable_indexes"`
}

var labels = []string{"foo", "bar", "baz", "example", "com", "a", "b", "svc", "grpc", "io"}

func genHost(rng *rand.Rand) string {
	n := 2 + rng.Intn(3)
	parts := make([]string, n)
	for i := range parts {
		parts[i] = labels[rng.Intn(len(labels))]
	}
	h := strings.Join(parts, ".")
	if rng.Intn(4) == 0 {
		h += ":" + strconv.Itoa(80+rng.Intn(9000))
	}
	return h
}

func genDomain(rng *rand.Rand, host string) string {
	other := genHost(rng)
	switch rng.Intn(10) {
	case 0:
		return "*"
	case 1, 2:
		return host
	case 3:
		return other
	case 4, 5: // suffix wildcard on the host: '*' matches at least one byte
		k := 1 + rng.Intn(len(host)-1)
		return "*" + host[k:]
	case 6, 7: // prefix wildcard
		k := 1 + rng.Intn(len(host)-1)
		return host[:k] + "*"
	case 8:
		k := 1 + rng.Intn(len(other)-1)
		return "*" + other[k:]
	default:
		k := 1 + rng.Intn(len(other)-1)
		return other[:k] + "*"
	}
}

func checkVhost(r *vlib.Run, fam string, i int, host string, doms [][]string) {
	vhs := make([]*xdsresource.VirtualHost, len(doms))
	for k, d := range doms {
		vhs[k] = &xdsresource.VirtualHost{Domains: append([]string(nil), d...)}
	}
	got := xdsresource.FindBestMatchingVirtualHost(host, vhs)
	r.Eval(1)
	gotIdx := -1
	for k, vh := range vhs {
		if vh == got {
			gotIdx = k
		}
	}
	// reference: argmax over (rank, len(pattern)) of the matching domains
	bestRank, bestLen := rankNone, -1
	unjudged := false
	matching := 0
	for _, ds := range doms {
		for _, d := range ds {
			rank, ok, ew := refDomain(d, host)
			if ew {
				unjudged = true
			}
			if !ok {
				continue
			}
			matching++
			if rank > bestRank || rank == bestRank && len(d) > bestLen {
				bestRank, bestLen = rank, len(d)
			}
		}
	}
	if unjudged {
		r.Count("vhost_empty_wildcard_unjudged", 1)
		return
	}
	var want []int
	for k, ds := range doms {
		for _, d := range ds {
			if rank, ok, _ := refDomain(d, host); ok && rank == bestRank && len(d) == bestLen {
				want = append(want, k)
				break
			}
		}
	}
	c := vhCase{Host: host, Domains: doms, Got: gotIdx, Want: want}
	switch {
	case len(want) == 0:
		if got != nil {
			r.Violation("vhost-selected-without-match", fam, i, c, "FindBestMatchingVirtualHost(%q) chose vhost %d %v although no domain matches", host, gotIdx, doms[gotIdx])
		}
	case got == nil:
		r.Violation("vhost-none-selected", fam, i, c, "FindBestMatchingVirtualHost(%q) = nil, reference best match is vhost %v of %v", host, want, doms)
	default:
		ok := false
		for _, w := range want {
			if w == gotIdx {
				ok = true
			}
		}
		if !ok {
			r.Violation("vhost-not-best-match", fam, i, c, "FindBestMatchingVirtualHost(%q) chose vhost %d %v, reference best (exact>suffix>prefix>universal, longer pattern first) is vhost %v of %v",
				host, gotIdx, doms[gotIdx], want, doms)
		}
	}
	mb := matching
	if mb > 3 {
		mb = 3
	}
	r.Nontrivial(fmt.Sprintf("vh/best%d/matching%d/ties%d", bestRank, mb, len(want)))
	if matching > 1 {
		r.Count("vhost_cases_with_competing_matches", 1)
	}
	if i < 2 {
		r.Sample(c)
	}
}

// ---------------------------------------------------------------- routes

type routeSpec struct {
	Path     refmatch.PathSpec
	Headers  []refmatch.HeaderSpec
	Fraction *uint32
}

func (rs routeSpec) describe() string {
	var sb strings.Builder
	fmt.Fprintf(&sb, "%s:%s(ci=%v)", rs.Path.Kind, q(rs.Path.Pattern), rs.Path.CaseInsensitive)
	for _, h := range rs.Headers {
		fmt.Fprintf(&sb, " hdr[%s %s %s ic=%v [%d,%d) present=%v invert=%v]", h.Name, h.Kind, q(h.Str.Pattern), h.Str.IgnoreCase, h.Start, h.End, h.Present, h.Invert)
	}
	if rs.Fraction != nil {
		fmt.Fprintf(&sb, " fraction=%d", *rs.Fraction)
	}
	return sb.String()
}

// toRoute converts the spec into the validated-route form RouteToMatcher expects.
func toRoute(rs routeSpec) (*xdsresource.Route, error) {
	rt := &xdsresource.Route{CaseInsensitive: rs.Path.CaseInsensitive, Fraction: rs.Fraction}
	pat := rs.Path.Pattern
	switch rs.Path.Kind {
	case refmatch.PathExact:
		rt.Path = &pat
	case refmatch.PathPrefix:
		rt.Prefix = &pat
	default:
		re, err := matcher.CompileSafeRegex(pat)
		if err != nil {
			return nil, err
		}
		rt.Regex = re
	}
	for _, h := range rs.Headers {
		inv := h.Invert
		hm := &xdsresource.HeaderMatcher{Name: h.Name, InvertMatch: &inv}
		switch h.Kind {
		case refmatch.HRegex:
			re, err := matcher.CompileSafeRegex(h.Str.Pattern)
			if err != nil {
				return nil, err
			}
			hm.RegexMatch = re
		case refmatch.HRange:
			hm.RangeMatch = &xdsresource.Int64Range{Start: h.Start, End: h.End}
		case refmatch.HPresent:
			p := h.Present
			hm.PresentMatch = &p
		default: // HString
			var sm matcher.StringMatcher
			switch h.Str.Kind {
			case refmatch.Exact:
				sm = matcher.NewExactStringMatcher(h.Str.Pattern, h.Str.IgnoreCase)
			case refmatch.Prefix:
				sm = matcher.NewPrefixStringMatcher(h.Str.Pattern, h.Str.IgnoreCase)
			case refmatch.Suffix:
				sm = matcher.NewSuffixStringMatcher(h.Str.Pattern, h.Str.IgnoreCase)
			default:
				sm = matcher.NewContainsStringMatcher(h.Str.Pattern, h.Str.IgnoreCase)
			}
			hm.StringMatch = &sm
		}
		rt.Headers = append(rt.Headers, hm)
	}
	return rt, nil
}

var hdrNames = []string{"th", "x-env", "x-id"}
var hdrVals = []string{"prod", "PROD", "canary", "staging", "v1", "v2"}

// genRoute: ASCII-only matchers (Unicode folding is C47's subject); every
// component is individually likely to match so that conjunctions are exercised.
func genRoute(rng *rand.Rand, method string, md map[string][]string) routeSpec {
	var rs routeSpec
	switch rng.Intn(5) {
	case 0:
		rs.Path = refmatch.PathSpec{Kind: refmatch.PathPrefix, Pattern: ""}
	case 1:
		rs.Path = refmatch.PathSpec{Kind: refmatch.PathPrefix, Pattern: method[:1+rng.Intn(len(method))], CaseInsensitive: rng.Intn(2) == 0}
	case 2:
		rs.Path = refmatch.PathSpec{Kind: refmatch.PathExact, Pattern: method, CaseInsensitive: rng.Intn(2) == 0}
	case 3:
		n := refmatch.Cat(refmatch.Lit(method[:1+rng.Intn(len(method))]), refmatch.GenRegex(rng, 1))
		rs.Path = refmatch.PathSpec{Kind: refmatch.PathRegex, Pattern: n.String(), Re: n}
	default:
		rs.Path = refmatch.PathSpec{Kind: refmatch.PathKind(rng.Intn(2)), Pattern: "/" + refmatch.ASCIIText(rng) + "/" + refmatch.ASCIIText(rng)}
	}
	if rs.Path.CaseInsensitive && rng.Intn(2) == 0 {
		rs.Path.Pattern = refmatch.MutateCase(rng, rs.Path.Pattern, false)
	}
	for k := rng.Intn(3); k > 0; k-- {
		h := refmatch.HeaderSpec{Name: hdrNames[rng.Intn(len(hdrNames))], Invert: rng.Intn(4) == 0}
		cur, present := refmatch.JoinedValue(md, h.Name)
		switch rng.Intn(4) {
		case 0:
			h.Kind = refmatch.HPresent
			h.Present = rng.Intn(3) != 0 == present
		case 1:
			h.Kind = refmatch.HRange
			h.Start = int64(rng.Intn(20) - 5)
			h.End = h.Start + int64(rng.Intn(20))
		case 2:
			h.Kind = refmatch.HRegex
			base := cur
			if base == "" {
				base = hdrVals[rng.Intn(len(hdrVals))]
			}
			n := refmatch.Cat(refmatch.Lit(base[:rng.Intn(len(base)+1)]), refmatch.GenRegex(rng, 1))
			h.Str = refmatch.StringSpec{Kind: refmatch.Regex, Pattern: n.String(), Re: n}
		default:
			h.Kind = refmatch.HString
			pat := cur
			if pat == "" || rng.Intn(4) == 0 {
				pat = hdrVals[rng.Intn(len(hdrVals))]
			}
			k := refmatch.StrKind(rng.Intn(4))
			if k != refmatch.Exact && len(pat) > 1 {
				a := rng.Intn(len(pat))
				b := a + 1 + rng.Intn(len(pat)-a)
				switch k {
				case refmatch.Prefix:
					pat = pat[:b]
				case refmatch.Suffix:
					pat = pat[a:]
				default:
					pat = pat[a:b]
				}
			}
			ic := rng.Intn(2) == 0
			if ic {
				pat = refmatch.MutateCase(rng, pat, false)
			}
			h.Str = refmatch.StringSpec{Kind: k, Pattern: pat, IgnoreCase: ic}
		}
		rs.Headers = append(rs.Headers, h)
	}
	if rng.Intn(2) == 0 {
		f := uint32(vlib.Pick(rng, 0, 1, 2, 500000, 999999, million, million+1, 2*million, rng.Intn(million)))
		rs.Fraction = &f
	}
	return rs
}

func genMD(rng *rand.Rand) map[string][]string {
	md := map[string][]string{}
	for _, n := range hdrNames {
		switch rng.Intn(4) {
		case 0: // absent
		case 1:
			md[n] = []string{strconv.Itoa(rng.Intn(30) - 8)}
		case 2:
			md[n] = []string{hdrVals[rng.Intn(len(hdrVals))], hdrVals[rng.Intn(len(hdrVals))]}
		default:
			md[n] = []string{hdrVals[rng.Intn(len(hdrVals))]}
		}
	}
	return md
}

// refRoute evaluates the conjunction; strictFraction=false is the F5 variant
// (draw <= fraction), used only to attribute a discrepancy to F5.
func refRoute(rs routeSpec, method string, md map[string][]string, draw int64, strictFraction bool) (match bool, failed string) {
	if !rs.Path.Match(method) {
		return false, "path"
	}
	for _, h := range rs.Headers {
		if m, _ := h.Match(md); !m {
			return false, "header"
		}
	}
	if rs.Fraction != nil {
		f := int64(*rs.Fraction)
		if strictFraction && !(draw < f) || !strictFraction && !(draw <= f) {
			return false, "fraction"
		}
	}
	return true, "none"
}

type routeCase struct {
	Route  string              `json:"route"`
	Method string              `json:"method"`
	MD     map[string][]string `json:"md"`
	Draw   int64               `json:"random_draw"`
	Got    bool                `json:"got"`
	Want   bool                `json:"want"`
}

// ---------------------------------------------------------------- the test

func TestVerifC46(t *testing.T) {
	r := vlib.Start(t, "C46")
	origRand := xdsresource.RandInt64n
	defer func() { xdsresource.RandInt64n = origRand }()

	// ---- family 1: virtual hosts
	fixedVh := []struct {
		host string
		doms [][]string
	}{
		{"foo.bar.com", [][]string{{"*"}, {"*.bar.com"}, {"foo.*"}, {"foo.bar.com"}}},
		{"foo.bar.com", [][]string{{"foo.bar.com"}, {"*.bar.com"}, {"foo.*"}, {"*"}}},
		{"foo.bar.com", [][]string{{"*.com"}, {"*.bar.com"}, {"*r.com"}}},
		{"foo.bar.com", [][]string{{"foo.bar.*"}, {"f*"}, {"foo.b*"}}},
		{"foo.bar.com", [][]string{{"foo.bar.co*"}, {"*m"}}}, // short suffix beats long prefix
		{"foo.bar.com", [][]string{{"x.com", "*"}, {"y.com"}}},
		{"foo.bar.com", [][]string{{"x.com"}, {"y.*", "*.org"}}}, // no match
	}
	for i, c := range fixedVh {
		if r.Want("vhost-fixed", i) {
			checkVhost(r, "vhost-fixed", i, c.host, c.doms)
		}
	}
	n := r.N(60000, 1500000)
	for i := 0; i < n; i++ {
		if !r.Want("vhost", i) {
			continue
		}
		rng := r.Rand("vhost", i)
		host := genHost(rng)
		doms := make([][]string, 1+rng.Intn(5))
		for k := range doms {
			for j := 1 + rng.Intn(3); j > 0; j-- {
				doms[k] = append(doms[k], genDomain(rng, host))
			}
		}
		checkVhost(r, "vhost", i, host, doms)
	}

	// ---- family 2: one route = path AND headers AND fraction, scripted random draw
	var draw int64
	var randCalls int
	var badRange int64
	xdsresource.RandInt64n = func(nn int64) int64 {
		randCalls++
		if nn != million {
			badRange = nn
		}
		return draw
	}
	n = r.N(80000, 2000000)
	for i := 0; i < n; i++ {
		if !r.Want("route", i) {
			continue
		}
		rng := r.Rand("route", i)
		method := "/" + refmatch.ASCIIText(rng) + "/" + refmatch.ASCIIText(rng)
		md := genMD(rng)
		rs := genRoute(rng, method, md)
		if rng.Intn(3) == 0 {
			method = refmatch.MutateCase(rng, method, false)
		}
		rt, err := toRoute(rs)
		if err != nil {
			r.Violation("generated-regex-rejected", "route", i, rs.describe(), "CompileSafeRegex rejected a generated regex: %v", err)
			continue
		}
		cm := xdsresource.RouteToMatcher(rt)
		draw = rng.Int63n(million)
		if rs.Fraction != nil {
			f := int64(*rs.Fraction)
			switch rng.Intn(5) {
			case 0:
				draw = f - 1
			case 1:
				draw = f
			case 2:
				draw = f + 1
			case 3:
				draw = vlib.Pick(rng, int64(0), int64(million-1))
			}
			if draw < 0 {
				draw = 0
			}
			if draw >= million {
				draw = million - 1
			}
		}
		randCalls, badRange = 0, 0
		mdCopy := metadata.MD{}
		for k, v := range md {
			mdCopy[k] = append([]string(nil), v...)
		}
		got := cm.Match(method, mdCopy)
		want, failed := refRoute(rs, method, md, draw, true)
		r.Eval(1)
		c := routeCase{Route: rs.describe(), Method: q(method), MD: md, Draw: draw, Got: got, Want: want}
		if got != want {
			key := "route-match-mismatch-" + failed
			if f5, _ := refRoute(rs, method, md, draw, false); rs.Fraction != nil && got == f5 && draw == int64(*rs.Fraction) {
				key = keyF5
			}
			r.Violation(key, "route", i, c, "CompositeMatcher{%s}.Match(%s, %v) with random draw %d = %v, reference says %v (first failing component: %s)",
				rs.describe(), q(method), md, draw, got, want, failed)
		}
		if badRange != 0 {
			r.Violation("fraction-random-range", "route", i, c, "fraction matcher drew from [0,%d), the statement says one of the million possible draws", badRange)
		}
		if randCalls > 1 {
			r.Violation("fraction-multiple-draws", "route", i, c, "one Match consumed %d random draws", randCalls)
		}
		nh := len(rs.Headers)
		r.Nontrivial(fmt.Sprintf("route/%s/h%d/frac%v/%s", rs.Path.Kind, nh, rs.Fraction != nil, failed))
		r.Count("route_failed_at_"+failed, 1)
		if i < 2 {
			r.Sample(c)
		}
	}

	// ---- family 3: the fraction matcher under the enumerated random source
	fr := []uint32{0, 1, 2, 500000, 999999, million, million + 1, 4000000}
	rngF := r.Rand("fraction-values", 0)
	for k := r.N(2, 24); k > 0; k-- {
		fr = append(fr, uint32(rngF.Intn(million)))
	}
	empty := ""
	for i, f := range fr {
		if !r.Want("fraction", i) {
			continue
		}
		f := f
		cm := xdsresource.RouteToMatcher(&xdsresource.Route{Prefix: &empty, Fraction: &f})
		var next int64
		badRange = 0
		xdsresource.RandInt64n = func(nn int64) int64 {
			if nn != million {
				badRange = nn
			}
			v := next
			next++
			return v
		}
		want := int64(f)
		if want > million {
			want = million
		}
		var count, firstBad int64 = 0, -1
		for d := int64(0); d < million; d++ {
			m := cm.Match("/s/m", nil)
			if m {
				count++
			}
			if m != (d < want) && firstBad < 0 {
				firstBad = d
			}
		}
		r.Eval(1)
		r.Count("fraction_draws_enumerated", million)
		detail := map[string]int64{"fraction": int64(f), "matches": count, "want": want, "first_wrong_draw": firstBad}
		switch {
		case next != million:
			r.Violation("fraction-multiple-draws", "fraction", i, detail, "fraction %d: %d Match calls consumed %d draws", f, million, next)
		case badRange != 0:
			r.Violation("fraction-random-range", "fraction", i, detail, "fraction matcher drew from [0,%d)", badRange)
		case count == want && firstBad < 0:
		case count == want+1 && firstBad == want:
			r.Violation(keyF5, "fraction", i, detail, "fraction %d per million matched %d of the 1000000 possible draws (the draw equal to the fraction matches too); want exactly %d", f, count, want)
		default:
			r.Violation("fraction-count-mismatch", "fraction", i, detail, "fraction %d per million matched %d of the 1000000 possible draws, want exactly %d (first wrong draw %d)", f, count, want, firstBad)
		}
		cls := "mid"
		switch {
		case f == 0:
			cls = "zero"
		case f >= million:
			cls = "all"
		case f <= 2:
			cls = "tiny"
		case f == million-1:
			cls = "max-1"
		}
		r.Nontrivial("fraction-enumerated/" + cls)
		r.Sample(detail)
	}
	xdsresource.RandInt64n = origRand

	r.Finish(vlib.Spec{
		Level: "exploration",
		Rule: "vhost: PRNG hosts and 1-5 vhosts x 1-3 domains derived from the host (exact, '*'+suffix, prefix+'*', '*', unrelated) + fixed precedence witnesses; " +
			"route: PRNG route (path exact/prefix/regex, 0-2 header matchers, optional fraction) built around a PRNG method+metadata, RandInt64n scripted to f-1, f, f+1, 0, 999999 or random; " +
			"fraction: RandInt64n replaced by an enumerator, all 10^6 draws played for f in {0,1,2,500000,999999,10^6,10^6+1,4*10^6}+random f; " +
			"distinct = vhost (best rank, #matching, #ties) | route (path kind, #headers, fraction present, first failing component) | fraction class",
		Assumptions: []string{
			"domains are valid (non-empty, at most one leading or trailing '*'); a '*' that would have to match the empty string is not judged",
			"several vhosts achieving the same best (type, length) are all acceptable",
			"route matchers are ASCII-only here (Unicode folding is judged by C47); matcher semantics from h/c47_matchers/refmatch",
		},
		Floor: 60,
	})
}
