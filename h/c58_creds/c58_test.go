// C58: per-RPC credentials that require transport security never reach a
// connection whose negotiated security level is below PrivacyAndIntegrity.
//
// A real grpc.ClientConn is built for every element of the product
//
//	transport credentials  x  where the per-RPC credentials are attached  x  RequireTransportSecurity
//
// and talks, inside a synctest bubble over memconn, either to a scripted HTTP/2
// server (engine E1: every HEADERS block the server side ever reads is in the
// frame log) or to a real grpc.Server (tap handle + handler record the header
// metadata of every stream).  Each credential carries unique markers (a text
// value and a -bin value).
//
// Oracle (written from the statement and the documented security levels of the
// credentials packages, not from the transport code):
//
//	level known and below PrivacyAndIntegrity ("weak": insecure, local over TCP,
//	custom NoSecurity / IntegrityOnly / negative) and the credential requires
//	transport security  =>  the marker is in no header block the server saw, the
//	RPC that carried it reached the wire not at all and returned an error (for
//	dial-level/bundle credentials: no stream at all on any connection, or
//	NewClient failed);
//	otherwise (credential does not require security, or level >= PrivacyAndIntegrity)
//	the RPC succeeds and every marker arrives exactly once and unchanged.
//
// R2 note: CommonAuthInfo.SecurityLevel == InvalidSecurityLevel (0), an AuthInfo
// without GetCommonAuthInfo and a nil AuthInfo are "unknown" levels that
// credentials.CheckSecurityLevel documents as accepted for backward
// compatibility.  For them nothing is required about whether a
// security-requiring credential is sent; only "if it arrives, it is unchanged".
package c58

import (
	"bytes"
	"context"
	"encoding/base64"
	"fmt"
	"io"
	"math/rand"
	"net"
	"os"
	"sort"
	"strings"
	"sync"
	"testing"
	"testing/synctest"
	"time"

	"golang.org/x/net/http2"
	"google.golang.org/grpc"
	"google.golang.org/grpc/credentials"
	"google.golang.org/grpc/credentials/insecure"
	"google.golang.org/grpc/credentials/local"
	"google.golang.org/grpc/metadata"
	"google.golang.org/grpc/status"
	"google.golang.org/grpc/tap"
	"google.golang.org/grpc/verif/memconn"
	"google.golang.org/grpc/verif/vlib"
	"google.golang.org/grpc/verif/wire"
)

// ---------------------------------------------------------------- scenario

type tcSpec struct {
	Kind      string `json:"kind"`             // insecure | local | custom
	Remote    string `json:"remote,omitempty"` // local: network|address reported by the connection
	Level     int    `json:"level"`            // custom: CommonAuthInfo.SecurityLevel
	Flavor    string `json:"flavor,omitempty"` // custom: common | legacy | nil
	Proto     string `json:"proto,omitempty"`  // custom: ProtocolInfo.SecurityProtocol
	ViaBundle bool   `json:"via_bundle"`       // transport credentials supplied by a credentials.Bundle
}

type credSpec struct {
	Mode      string `json:"mode"` // dial | bundle | call
	Require   bool   `json:"require"`
	Key       string `json:"key"` // as returned by GetRequestMetadata (may contain capitals)
	Marker    string `json:"marker"`
	BinKey    string `json:"bin_key"`
	BinMarker []byte `json:"bin_marker"`
}

type rpcSpec struct {
	Stream  bool `json:"stream"`
	WFR     bool `json:"wfr"`
	UseCall bool `json:"use_call"` // attach the call-level credential (if the scenario has one)
}

type scenario struct {
	TC     tcSpec     `json:"tc"`
	Creds  []credSpec `json:"creds"`
	Server string     `json:"server"` // scripted | real
	RPCs   []rpcSpec  `json:"rpcs"`
}

var transports = []tcSpec{
	{Kind: "insecure"},
	{Kind: "local", Remote: "tcp|127.0.0.1:50051"},
	{Kind: "local", Remote: "tcp|[::1]:50051"},
	{Kind: "local", Remote: "unix|/run/verif/c58.sock"},
	{Kind: "local", Remote: "tcp|10.1.2.3:443"},
	{Kind: "custom", Flavor: "common", Level: -1},
	{Kind: "custom", Flavor: "common", Level: int(credentials.InvalidSecurityLevel)},
	{Kind: "custom", Flavor: "common", Level: int(credentials.NoSecurity)},
	{Kind: "custom", Flavor: "common", Level: int(credentials.IntegrityOnly)},
	{Kind: "custom", Flavor: "common", Level: int(credentials.PrivacyAndIntegrity)},
	{Kind: "custom", Flavor: "common", Level: 4},
	{Kind: "custom", Flavor: "common", Level: 100},
	{Kind: "custom", Flavor: "legacy"},
	{Kind: "custom", Flavor: "nil"},
}

var attachModes = [][]string{
	{"dial"}, {"dial", "dial"}, {"bundle"}, {"call"}, {"dial", "call"}, {"bundle", "call"},
}

// product enumerates transports x attach modes x require patterns.
type combo struct {
	tc    int
	modes []string
	req   []bool
}

func product() []combo {
	var out []combo
	for t := range transports {
		for _, m := range attachModes {
			for bits := 0; bits < 1<<len(m); bits++ {
				req := make([]bool, len(m))
				for k := range m {
					req[k] = bits&(1<<k) != 0
				}
				out = append(out, combo{tc: t, modes: m, req: req})
			}
		}
	}
	return out
}

func gen(rng *rand.Rand, c combo, server string, caseNo int) scenario {
	sc := scenario{TC: transports[c.tc], Server: server}
	if sc.TC.Kind == "custom" {
		sc.TC.Proto = vlib.Pick(rng, "verif-custom", "tls", "alts", "")
	}
	hasCall := false
	for k, m := range c.modes {
		cs := credSpec{Mode: m, Require: c.req[k]}
		if k == 0 {
			cs.Key = vlib.Pick(rng, "authorization", "x-verif-c0", "X-Verif-C0")
		} else {
			cs.Key = vlib.Pick(rng, "x-verif-c1", "X-VERIF-C1", "x-goog-verif-c1")
		}
		cs.Marker = fmt.Sprintf("mk-%d-%d-%08x%08x", caseNo, k, rng.Uint32(), rng.Uint32())
		if rng.Intn(3) == 0 {
			cs.Marker = "Bearer " + cs.Marker
		}
		cs.BinKey = fmt.Sprintf("x-verif-c%d-bin", k)
		pre := make([]byte, 1+rng.Intn(6))
		rng.Read(pre)
		cs.BinMarker = append(append(pre, []byte("bm-"+cs.Marker)...), byte(rng.Intn(256)), 0, 0xff)
		if m == "bundle" {
			sc.TC.ViaBundle = true
		}
		if m == "call" {
			hasCall = true
		}
		sc.Creds = append(sc.Creds, cs)
	}
	if !sc.TC.ViaBundle {
		sc.TC.ViaBundle = rng.Intn(4) == 0
	}
	n := 2 + rng.Intn(2)
	for j := 0; j < n; j++ {
		sc.RPCs = append(sc.RPCs, rpcSpec{Stream: rng.Intn(2) == 0, WFR: rng.Intn(4) == 0, UseCall: hasCall && rng.Intn(3) != 0})
	}
	if hasCall {
		// always one RPC with and one without the call credential
		sc.RPCs[rng.Intn(n)].UseCall = true
		sc.RPCs = append(sc.RPCs, rpcSpec{Stream: rng.Intn(2) == 0, UseCall: false})
		rng.Shuffle(len(sc.RPCs), func(a, b int) { sc.RPCs[a], sc.RPCs[b] = sc.RPCs[b], sc.RPCs[a] })
	}
	return sc
}

// class is the reference reading of the negotiated security level.
//
//	weak    known and below PrivacyAndIntegrity
//	strong  PrivacyAndIntegrity or above
//	unknown not reported (documented as accepted for backward compatibility)
//	none    the handshake itself must fail (local credentials, non-local peer)
func (t tcSpec) class() string {
	switch t.Kind {
	case "insecure":
		return "weak" // credentials/insecure: "NoSecurity"
	case "local":
		switch {
		case strings.HasPrefix(t.Remote, "unix|"):
			return "strong" // credentials/local: UDS => PrivacyAndIntegrity
		case strings.HasPrefix(t.Remote, "tcp|127.") || strings.HasPrefix(t.Remote, "tcp|[::1]:"):
			return "weak" // credentials/local: local TCP => NoSecurity
		}
		return "none"
	}
	if t.Flavor != "common" || t.Level == int(credentials.InvalidSecurityLevel) {
		return "unknown"
	}
	if t.Level < int(credentials.PrivacyAndIntegrity) {
		return "weak"
	}
	return "strong"
}

func (t tcSpec) label() string {
	switch t.Kind {
	case "insecure":
		return "insecure"
	case "local":
		return "local/" + t.Remote
	}
	if t.Flavor == "common" {
		return fmt.Sprintf("custom/level%d", t.Level)
	}
	return "custom/" + t.Flavor
}

// ---------------------------------------------------------------- credentials under our control

type commonAI struct{ credentials.CommonAuthInfo }

func (commonAI) AuthType() string { return "verif-common" }

type legacyAI struct{}

func (legacyAI) AuthType() string { return "verif-legacy" }

// customTC is a TransportCredentials whose handshake is a no-op over the
// in-memory connection and that reports the configured AuthInfo.
type customTC struct {
	spec tcSpec
	mu   *sync.Mutex
	hs   *int
}

func (c customTC) authInfo() credentials.AuthInfo {
	switch c.spec.Flavor {
	case "common":
		return commonAI{credentials.CommonAuthInfo{SecurityLevel: credentials.SecurityLevel(c.spec.Level)}}
	case "legacy":
		return legacyAI{}
	}
	return nil
}

func (c customTC) ClientHandshake(_ context.Context, _ string, conn net.Conn) (net.Conn, credentials.AuthInfo, error) {
	c.mu.Lock()
	*c.hs++
	c.mu.Unlock()
	return conn, c.authInfo(), nil
}

func (c customTC) ServerHandshake(conn net.Conn) (net.Conn, credentials.AuthInfo, error) {
	return conn, c.authInfo(), nil
}
func (c customTC) Info() credentials.ProtocolInfo {
	return credentials.ProtocolInfo{SecurityProtocol: c.spec.Proto}
}
func (c customTC) Clone() credentials.TransportCredentials { return c }
func (c customTC) OverrideServerName(string) error         { return nil }

type bundle struct {
	tc credentials.TransportCredentials
	pr credentials.PerRPCCredentials
}

func (b bundle) TransportCredentials() credentials.TransportCredentials { return b.tc }
func (b bundle) PerRPCCredentials() credentials.PerRPCCredentials       { return b.pr }
func (b bundle) NewWithMode(string) (credentials.Bundle, error)         { return b, nil }

type perRPC struct {
	spec  credSpec
	mu    *sync.Mutex
	calls *int
}

func (p perRPC) GetRequestMetadata(context.Context, ...string) (map[string]string, error) {
	p.mu.Lock()
	*p.calls++
	p.mu.Unlock()
	return map[string]string{p.spec.Key: p.spec.Marker, p.spec.BinKey: string(p.spec.BinMarker)}, nil
}
func (p perRPC) RequireTransportSecurity() bool { return p.spec.Require }

type naddr struct{ n, s string }

func (a naddr) Network() string { return a.n }
func (a naddr) String() string  { return a.s }

type addrConn struct {
	net.Conn
	remote net.Addr
}

func (a addrConn) RemoteAddr() net.Addr { return a.remote }

// ---------------------------------------------------------------- one case

// obs is the header metadata of one stream as the server side saw it (-bin
// values decoded).
type obs struct {
	src string
	md  map[string][]string
}

type result struct {
	viol     [][2]string
	counters map[string]int64
	sig      string
}

func decodeBin(v string) string {
	if b, err := base64.RawStdEncoding.DecodeString(v); err == nil {
		return string(b)
	}
	if b, err := base64.StdEncoding.DecodeString(v); err == nil {
		return string(b)
	}
	return v
}

func run(sc scenario) *result {
	res := &result{counters: map[string]int64{}}
	v := func(key, f string, a ...any) { res.viol = append(res.viol, [2]string{key, fmt.Sprintf(f, a...)}) }
	var mu sync.Mutex
	handshakes, credCalls := 0, 0
	var observed []obs
	var wg sync.WaitGroup

	// ---- transport credentials
	var tc credentials.TransportCredentials
	var remote net.Addr
	switch sc.TC.Kind {
	case "insecure":
		tc = insecure.NewCredentials()
	case "local":
		tc = local.NewCredentials()
		p := strings.SplitN(sc.TC.Remote, "|", 2)
		remote = naddr{p[0], p[1]}
	default:
		tc = customTC{spec: sc.TC, mu: &mu, hs: &handshakes}
	}

	// ---- server side
	var peers []*wire.Peer
	var started []bool
	var sconns []*memconn.Conn
	var sfx *wire.ServerFixture
	noPreface := 0
	if sc.Server == "real" {
		handler := func(_ any, ss grpc.ServerStream) error {
			md, _ := metadata.FromIncomingContext(ss.Context())
			mu.Lock()
			observed = append(observed, obs{src: "handler", md: md.Copy()})
			mu.Unlock()
			for {
				var m []byte
				if err := ss.RecvMsg(&m); err != nil {
					break
				}
			}
			return ss.SendMsg([]byte("ok"))
		}
		tapFn := func(ctx context.Context, info *tap.Info) (context.Context, error) {
			mu.Lock()
			observed = append(observed, obs{src: "tap", md: info.Header.Copy()})
			mu.Unlock()
			return ctx, nil
		}
		srvTC := customTC{spec: tcSpec{Kind: "custom", Flavor: "common", Level: int(credentials.PrivacyAndIntegrity), Proto: "verif-server"}, mu: &mu, hs: new(int)}
		sfx = wire.NewServerFixture(handler, grpc.Creds(srvTC), grpc.InTapHandle(tapFn))
		sfx.Serve()
	}
	dialer := func(ctx context.Context, _ string) (net.Conn, error) {
		var c net.Conn
		if sfx != nil {
			cc, err := sfx.L.Dial()
			if err != nil {
				return nil, err
			}
			c = cc
		} else {
			cl, s := memconn.Pipe(0)
			p := wire.NewPeer(s, true)
			p.OnFrame = func(e wire.Entry) {
				if e.Dir == wire.In && e.EndStream() {
					p.WriteHeaders(e.Stream, false, 0, wire.ResponseHeaders()...)
					p.WriteData(e.Stream, wire.Msg([]byte("ok")), false, -1)
					p.WriteHeaders(e.Stream, true, 0, wire.Trailers(0, "")...)
				}
			}
			mu.Lock()
			idx := len(peers)
			peers = append(peers, p)
			started = append(started, false)
			sconns = append(sconns, s)
			mu.Unlock()
			wg.Add(1)
			go func() {
				defer wg.Done()
				err := p.Start()
				mu.Lock()
				if err == nil {
					started[idx] = true
				} else {
					noPreface++
				}
				mu.Unlock()
				if err != nil {
					s.Close()
				}
			}()
			c = cl
		}
		if remote != nil {
			c = addrConn{Conn: c, remote: remote}
		}
		return c, nil
	}

	// ---- client
	dopts := []grpc.DialOption{
		grpc.WithContextDialer(dialer),
		grpc.WithDefaultCallOptions(grpc.ForceCodec(wire.RawCodec{})),
	}
	var bundlePR credentials.PerRPCCredentials
	var callCred credentials.PerRPCCredentials
	for _, cs := range sc.Creds {
		p := perRPC{spec: cs, mu: &mu, calls: &credCalls}
		switch cs.Mode {
		case "dial":
			dopts = append(dopts, grpc.WithPerRPCCredentials(p))
		case "bundle":
			bundlePR = p
		case "call":
			callCred = p
		}
	}
	if sc.TC.ViaBundle {
		dopts = append(dopts, grpc.WithCredentialsBundle(bundle{tc: tc, pr: bundlePR}))
	} else {
		dopts = append(dopts, grpc.WithTransportCredentials(tc))
	}

	class := sc.TC.class()
	chanBad := false // a dial-level / bundle credential requires security on a weak connection
	chanUnknownReq := false
	for _, cs := range sc.Creds {
		if cs.Mode != "call" && cs.Require {
			if class == "weak" {
				chanBad = true
			}
			if class == "unknown" {
				chanUnknownReq = true
			}
		}
	}

	cleanup := func(cc *grpc.ClientConn) {
		if cc != nil {
			cc.Close()
		}
		if sfx != nil {
			sfx.S.Stop()
		}
		mu.Lock()
		cs := append([]*memconn.Conn(nil), sconns...)
		mu.Unlock()
		for _, s := range cs {
			s.Close()
		}
		wg.Wait()
		mu.Lock()
		ps, st := append([]*wire.Peer(nil), peers...), append([]bool(nil), started...)
		mu.Unlock()
		for i, p := range ps {
			if st[i] {
				<-p.Done()
			}
		}
	}

	cc, err := grpc.NewClient("passthrough:///verif", dopts...)
	if err != nil {
		res.counters["newclient_errors"]++
		if !chanBad {
			v("config-rejected-without-weak-secure-creds", "grpc.NewClient failed (%v) although no channel-level credential requires security on a weak transport (%s)", err, sc.TC.label())
		}
		cleanup(nil)
		res.sig = fmt.Sprintf("%s/%s/blocked-newclient", sc.TC.label(), credSig(sc))
		return res
	}

	type rpcOut struct {
		err error
		got []byte
	}
	outs := make([]rpcOut, len(sc.RPCs))
	for j, rp := range sc.RPCs {
		rid := fmt.Sprintf("r%d", j)
		ctx, cancel := context.WithTimeout(metadata.AppendToOutgoingContext(context.Background(), "x-rid", rid), 5*time.Second)
		copts := []grpc.CallOption{grpc.WaitForReady(rp.WFR)}
		if rp.UseCall && callCred != nil {
			copts = append(copts, grpc.PerRPCCredentials(callCred))
		}
		var reply []byte
		var rerr error
		if rp.Stream {
			var st grpc.ClientStream
			st, rerr = cc.NewStream(ctx, &grpc.StreamDesc{ClientStreams: true, ServerStreams: true}, "/verif.Creds/Stream", copts...)
			if rerr == nil {
				if rerr = st.SendMsg([]byte("req")); rerr == nil {
					st.CloseSend()
					for rerr == nil {
						var m []byte
						if rerr = st.RecvMsg(&m); rerr == nil {
							reply = m
						}
					}
				}
				if rerr == io.EOF {
					rerr = nil
				}
			}
		} else {
			rerr = cc.Invoke(ctx, "/verif.Creds/Unary", []byte("req"), &reply, copts...)
		}
		cancel()
		outs[j] = rpcOut{err: rerr, got: reply}
		synctest.Wait()
	}
	synctest.Wait()

	// ---- collect what the server side saw
	if sfx == nil {
		mu.Lock()
		ps := append([]*wire.Peer(nil), peers...)
		mu.Unlock()
		for ci, p := range ps {
			for _, e := range p.Log() {
				if e.Dir != wire.In || e.Type != http2.FrameHeaders {
					continue
				}
				res.counters["headers_blocks_seen"]++
				md := map[string][]string{}
				for _, f := range e.Fields {
					val := f.Value
					if strings.HasSuffix(f.Name, "-bin") {
						val = decodeBin(val)
					}
					md[f.Name] = append(md[f.Name], val)
				}
				observed = append(observed, obs{src: fmt.Sprintf("conn%d/stream%d", ci, e.Stream), md: md})
			}
		}
	} else {
		mu.Lock()
		for _, o := range observed {
			if o.src == "tap" {
				res.counters["headers_blocks_seen"]++
			}
		}
		mu.Unlock()
	}
	mu.Lock()
	obsAll := append([]obs(nil), observed...)
	res.counters["connections_dialed"] += int64(len(peers))
	res.counters["connections_without_preface"] += int64(noPreface)
	res.counters["custom_handshakes"] += int64(handshakes)
	res.counters["get_request_metadata_calls"] += int64(credCalls)
	mu.Unlock()

	contains := func(o obs, needle string) (string, bool) {
		for k, vs := range o.md {
			for _, val := range vs {
				if strings.Contains(val, needle) || strings.Contains(k, needle) {
					return k, true
				}
			}
		}
		return "", false
	}

	// ---- A: a marker of a security-requiring credential must never be seen on a weak connection
	leaked := false
	for _, cs := range sc.Creds {
		if !(cs.Require && class == "weak") {
			continue
		}
		for _, o := range obsAll {
			// BinMarker embeds Marker, so one scan covers both values
			if k, ok := contains(o, strings.TrimPrefix(cs.Marker, "Bearer ")); ok {
				leaked = true
				v("secure-creds-sent-on-weak-connection:"+cs.Mode, "%s-level credential with RequireTransportSecurity()=true: its marker %q was seen by the server (%s, header %q) on transport %s whose security level is below PrivacyAndIntegrity", cs.Mode, cs.Marker, o.src, k, sc.TC.label())
				break
			}
		}
	}
	if chanBad && len(obsAll) > 0 && !leaked {
		v("stream-on-connection-that-had-to-fail", "a channel-level credential requires transport security and transport %s is weak, yet the server saw %d header block(s) (first: %s)", sc.TC.label(), len(obsAll), obsAll[0].src)
	}

	// ---- per RPC: B (must fail, nothing on the wire) or C/D (must arrive exactly once, unchanged)
	delivered, blocked, undecided := 0, 0, 0
	for j, rp := range sc.RPCs {
		rid := fmt.Sprintf("r%d", j)
		var mine []obs
		for _, o := range obsAll {
			if vs := o.md["x-rid"]; len(vs) == 1 && vs[0] == rid && o.src != "handler" {
				mine = append(mine, o)
			}
		}
		var applicable []credSpec
		bad, unknownReq := chanBad, chanUnknownReq
		for _, cs := range sc.Creds {
			if cs.Mode == "call" && !rp.UseCall {
				continue
			}
			applicable = append(applicable, cs)
			if cs.Mode == "call" && cs.Require && class == "weak" {
				bad = true
			}
			if cs.Mode == "call" && cs.Require && class == "unknown" {
				unknownReq = true
			}
		}
		o := outs[j]
		switch {
		case bad:
			blocked++
			if o.err == nil {
				v("rpc-succeeded-with-secure-creds-on-weak-connection", "rpc %d (%+v) carries a credential that requires transport security, transport %s is weak, yet the RPC returned no error", j, rp, sc.TC.label())
			}
			if len(mine) > 0 {
				v("blocked-rpc-reached-the-wire", "rpc %d (%+v) had to fail before anything is written (secure credential on weak transport %s) but the server saw its HEADERS (%s)", j, rp, sc.TC.label(), mine[0].src)
			}
			res.counters["rpc_error_code_"+status.Code(o.err).String()]++
		case class == "none":
			blocked++
			if len(mine) > 0 {
				v("stream-without-handshake", "local credentials must reject the non-local peer %s, yet rpc %d reached the server", sc.TC.Remote, j)
			}
			if o.err == nil {
				v("stream-without-handshake", "local credentials must reject the non-local peer %s, yet rpc %d succeeded", sc.TC.Remote, j)
			}
		case unknownReq:
			undecided++
			// backward-compatibility zone: only "unchanged if it arrives"
			for _, ob := range mine {
				checkValues(v, sc, j, ob, applicable)
			}
			if o.err == nil && len(mine) > 0 {
				res.counters["unknown_level_secure_creds_sent"]++
			} else {
				res.counters["unknown_level_secure_creds_refused"]++
			}
		default:
			if o.err != nil {
				v("creds-not-delivered", "rpc %d (%+v) on transport %s (class %s) carries no credential that the connection is too weak for, but failed: %v", j, rp, sc.TC.label(), class, o.err)
				break
			}
			if string(o.got) != "ok" {
				v("creds-not-delivered", "rpc %d succeeded but the reply is %q", j, o.got)
			}
			if len(mine) != 1 {
				v("creds-not-delivered", "rpc %d succeeded but the server saw %d header blocks for it (want 1)", j, len(mine))
				break
			}
			if checkValues(v, sc, j, mine[0], applicable) {
				delivered++
			}
			// a call credential that this RPC did not use must not appear
			for _, cs := range sc.Creds {
				if cs.Mode == "call" && !rp.UseCall {
					if k, ok := contains(mine[0], strings.TrimPrefix(cs.Marker, "Bearer ")); ok {
						v("call-creds-on-foreign-rpc", "rpc %d did not use the call-level credential but header %q carries its marker", j, k)
					}
				}
			}
		}
	}
	res.counters["rpcs_delivered_verified"] += int64(delivered)
	res.counters["rpcs_blocked_verified"] += int64(blocked)
	res.counters["rpcs_unknown_level"] += int64(undecided)
	if chanBad {
		res.counters["channels_that_had_to_fail"]++
	}
	cleanup(cc)
	if delivered+blocked > 0 {
		res.sig = fmt.Sprintf("%s/%s/%s/d%v-b%v", sc.TC.label(), credSig(sc), sc.Server, delivered > 0, blocked > 0)
	}
	return res
}

func credSig(sc scenario) string {
	var p []string
	for _, cs := range sc.Creds {
		r := "opt"
		if cs.Require {
			r = "req"
		}
		p = append(p, cs.Mode+":"+r)
	}
	b := ""
	if sc.TC.ViaBundle {
		b = "+tcbundle"
	}
	return strings.Join(p, ",") + b
}

// checkValues: every applicable credential's two values arrive exactly once and unchanged.
func checkValues(v func(string, string, ...any), sc scenario, j int, o obs, applicable []credSpec) bool {
	ok := true
	for _, cs := range applicable {
		k := strings.ToLower(cs.Key) // HTTP/2 header names are lower case
		if got := o.md[k]; len(got) != 1 || got[0] != cs.Marker {
			ok = false
			key := "creds-altered"
			if len(got) == 0 {
				key = "creds-not-delivered"
			}
			v(key, "rpc %d (%s): %s-level credential header %q arrived as %q, want exactly [%q] (transport %s)", j, o.src, cs.Mode, k, got, cs.Marker, sc.TC.label())
		}
		if got := o.md[cs.BinKey]; len(got) != 1 || !bytes.Equal([]byte(got[0]), cs.BinMarker) {
			ok = false
			key := "creds-altered"
			if len(got) == 0 {
				key = "creds-not-delivered"
			}
			v(key, "rpc %d (%s): %s-level credential header %q arrived as %q, want exactly [%q] (transport %s)", j, o.src, cs.Mode, cs.BinKey, got, cs.BinMarker, sc.TC.label())
		}
	}
	return ok
}

// ---------------------------------------------------------------- driver

func light() bool { return os.Getenv("VERIF_LIGHT") != "" }

func TestVerifC58(t *testing.T) {
	r := vlib.Start(t, "C58")
	prod := product()
	rounds := r.N(1, 12)
	servers := []string{"scripted", "real"}
	n := rounds * len(servers) * len(prod)
	const fam = "product"
	for i := 0; i < n; i++ {
		if !r.Want(fam, i) {
			continue
		}
		if light() && r.Rand("light", i).Intn(5) != 0 {
			continue // the -race step runs a PRNG-chosen fifth of the product
		}
		c := prod[i%len(prod)]
		server := servers[(i/len(prod))%len(servers)]
		sc := gen(r.Rand(fam, i), c, server, i)
		r.Progress(fam, i, fmt.Sprintf("%s %s %s", sc.TC.label(), credSig(sc), server))
		var res *result
		synctest.Test(t, func(t *testing.T) { res = run(sc) })
		r.Eval(1)
		for _, x := range res.viol {
			r.Violation(x[0], fam, i, sc, "%s", x[1])
		}
		keys := make([]string, 0, len(res.counters))
		for k := range res.counters {
			keys = append(keys, k)
		}
		sort.Strings(keys)
		for _, k := range keys {
			r.Count(k, res.counters[k])
		}
		if res.sig != "" {
			r.Nontrivial(res.sig)
		}
		if i%97 == 0 {
			r.Sample(map[string]any{"scenario": sc, "class": sc.TC.class(), "counters": res.counters})
		}
	}
	r.Finish(vlib.Spec{
		Level: "exploration",
		Rule: "full product of 14 transport credentials (insecure; local over tcp4/tcp6 loopback, UDS, non-local; custom no-op-handshake credentials reporting SecurityLevel -1,0(invalid),1,2,3,4,100 through CommonAuthInfo, an AuthInfo without CommonAuthInfo, a nil AuthInfo) x 6 attachments (dial, dial+dial, bundle, call, dial+call, bundle+call) x every RequireTransportSecurity pattern x {scripted HTTP/2 server, real grpc.Server}; transport credentials randomly supplied through a credentials.Bundle; 2-4 unary/streaming RPCs with/without WaitForReady, with and without the call credential; every credential has a unique text marker and a -bin marker. " +
			"non-trivial = at least one RPC was verified as delivered-unchanged or as blocked-with-nothing-on-the-wire (or NewClient refused the configuration); distinct = (transport, attachment+require pattern, server kind, delivered?, blocked?)",
		Assumptions: []string{
			"reference security levels: insecure=NoSecurity, local/TCP loopback=NoSecurity, local/UDS=PrivacyAndIntegrity (package docs); custom credentials report what the scenario says",
			"InvalidSecurityLevel(0), AuthInfo without GetCommonAuthInfo and nil AuthInfo are 'unknown' levels: documented as accepted by credentials.CheckSecurityLevel for backward compatibility, so nothing is required about sending there (R2)",
			"the scripted server's frame log (real server: tap handle + handler) is everything the server side saw; TLS/ALTS handshakes are not run (custom credentials stand in for every level)",
		},
		Floor: 60,
	})
}
