// C43: watchers of the generic xDS client see the latest valid resource and the
// correct errors.
//
// The real client runs unmodified on the scripted transport of engine E6
// (h/xdsfake) inside testing/synctest bubbles (virtual time for the 15 s
// does-not-exist timer and the stream backoff).  After every script step the
// harness waits for exact quiescence (synctest.Wait) and compares, per watcher,
// the callbacks received in that step with the prediction of
// xdsfake.CacheModel, a reference resource cache written from the property
// statement, the xDS protocol specification and gRFCs A53/A57 (see its doc
// comment for the R2 readings).  The subscription side of the statement ("after
// all watchers are removed the resource is unsubscribed") is judged with the
// quiescent names check of xdsfake.ProtoModel.
package c43

import (
	"fmt"
	"math/rand"
	"sort"
	"strings"
	"testing"
	"testing/synctest"
	"time"

	"google.golang.org/grpc/verif/vlib"
	x "google.golang.org/grpc/verif/xdsfake"
)

type detail struct {
	Config x.SimConfig `json:"config"`
	Steps  []string    `json:"steps"`
	Tail   []string    `json:"log_tail"`
}

type caseOut struct {
	findings []x.Finding
	stats    map[string]int
	pstats   map[string]int
	feat     map[string]int
	det      detail
	steps    int
}

type step struct {
	note string
	f    func()
}

func sleepStep(s *x.Sim, d time.Duration) step {
	return step{fmt.Sprintf("sleep %v", d), func() { s.W.Add(x.Event{Kind: x.EvScript, Note: "sleep"}); s.Sleep(d) }}
}

// prelude: deterministic openings (rotating over the case index) so that every
// seed reaches the main situations of the statement.
func prelude(i int, s *x.Sim, g *x.Gen) []step {
	var st []step
	add := func(note string, f func()) { st = append(st, step{note, f}) }
	resp := func(typ, kind string) func() { return func() { s.W.Server(0).Respond(g.MakeResponse(0, typ, kind)) } }
	switch i % 6 {
	case 0: // accepted, identical (suppressed), rejected with cache (ambient), identical after NACK
		a := s.NewWatcher(x.TypeURLA, "r0", false)
		add("watch r0", func() { a.Start(s.C) })
		add("respond valid", resp(x.TypeURLA, "valid"))
		add("respond identical", resp(x.TypeURLA, "identical"))
		add("respond invalid", resp(x.TypeURLA, "invalid"))
		add("respond identical after NACK", resp(x.TypeURLA, "identical"))
	case 1: // rejected first update (resource error), late watcher gets the error state, then a value
		a := s.NewWatcher(x.TypeURLB, "r1", false)
		b := s.NewWatcher(x.TypeURLB, "r1", false)
		add("watch B/r1", func() { a.Start(s.C) })
		add("respond invalid", resp(x.TypeURLB, "invalid"))
		add("second watcher on B/r1", func() { b.Start(s.C) })
		add("respond valid", resp(x.TypeURLB, "valid"))
	case 2: // state-of-the-world deletion (or ignored deletion), late watcher gets not-found
		a := s.NewWatcher(x.TypeURLA, "r0", false)
		b := s.NewWatcher(x.TypeURLA, "r2", false)
		c := s.NewWatcher(x.TypeURLA, "r2", false)
		add("watch r0", func() { a.Start(s.C) })
		add("watch r2", func() { b.Start(s.C) })
		add("respond valid", resp(x.TypeURLA, "valid"))
		add("respond empty (both deleted)", resp(x.TypeURLA, "empty"))
		add("late watcher on r2", func() { c.Start(s.C) })
		add("respond valid", resp(x.TypeURLA, "valid"))
	case 3: // watch expiry after 15 s of virtual time, late watcher, then the resource appears
		a := s.NewWatcher(x.TypeURLA, "r3", false)
		b := s.NewWatcher(x.TypeURLA, "r3", false)
		add("watch r3", func() { a.Start(s.C) })
		st = append(st, sleepStep(s, 14*time.Second), sleepStep(s, 2*time.Second))
		add("late watcher on r3", func() { b.Start(s.C) })
		add("respond valid", resp(x.TypeURLA, "valid"))
	case 4: // stream fails before any response (errors), then after a response (silence)
		a := s.NewWatcher(x.TypeURLA, "r4", false)
		add("watch r4", func() { a.Start(s.C) })
		add("break before any response", func() { s.W.Server(0).Break() })
		st = append(st, sleepStep(s, 3*time.Second))
		add("respond valid", resp(x.TypeURLA, "valid"))
		add("break after a response", func() { s.W.Server(0).Break() })
		add("break the fresh stream", func() { s.W.Server(0).Break() })
	case 5: // cached value for a new watcher; last cancel unsubscribes
		a := s.NewWatcher(x.TypeURLB, "r5", true)
		b := s.NewWatcher(x.TypeURLB, "r5", false)
		add("watch B/r5 (holds done)", func() { a.Start(s.C) })
		add("respond valid", resp(x.TypeURLB, "valid"))
		add("second watcher", func() { b.Start(s.C) })
		add("release", func() { s.ReleaseAll() })
		add("cancel first", func() { a.Stop() })
		add("cancel second", func() { b.Stop() })
	}
	return st
}

func runCase(t *testing.T, fam string, i int, rng *rand.Rand) caseOut {
	var out caseOut
	synctest.Test(t, func(t *testing.T) {
		cfg := x.SimConfig{Servers: 1, NodeID: fmt.Sprintf("node-%d", i), IgnoreDeletion: []bool{i%3 == 2}}
		opts := x.GenOpts{Names: []string{"r0", "r1", "r2", "r3", "r4", "r5"}, HoldProb: 0.25, MaxWatchers: 9,
			Burst: true, Garbage: true, StreamFail: true,
			Weights: map[string]int{"sleep": 14, "break": 8, "respond": 34}}
		steps := 30 + rng.Intn(30)
		s, err := x.NewSim(cfg)
		if err != nil {
			t.Fatalf("xdsclient.New: %v", err)
		}
		defer s.Close()
		cm := x.NewCacheModel(s)
		pm := x.NewProtoModel(s)
		g := x.NewGen(s, rng, opts)
		out.det.Config = cfg
		do := func(note string, f func()) bool {
			out.det.Steps = append(out.det.Steps, note)
			evs := s.Step(note, f)
			out.steps++
			cm.Feed(evs)
			pm.Feed(evs)
			fs := cm.Take()
			for _, f := range pm.Take() {
				// only the subscription side of C43; the rest of the protocol is C42's
				if f.Key == "names-mismatch-at-quiescence" || f.Key == "request-lists-unwatched-name" {
					f.Key = "subscription-" + f.Key
					fs = append(fs, f)
				}
			}
			if len(fs) > 0 {
				out.findings = fs
				out.det.Tail = s.W.Tail(90)
				return false
			}
			return true
		}
		ok := true
		for _, p := range prelude(i, s, g) {
			if ok = do(p.note, p.f); !ok {
				break
			}
		}
		for k := 0; ok && k < steps; k++ {
			note, f := g.Next()
			ok = do(note, f)
		}
		if ok {
			ok = do("final: release all", func() { s.ReleaseAll() })
		}
		if ok {
			do("final: release all", func() { s.ReleaseAll() })
		}
		out.stats = cm.Stats
		out.pstats = pm.Stats
		out.feat = g.Feat
	})
	return out
}

func signature(o caseOut) string {
	var bits []string
	on := func(name string, c bool) {
		if c {
			bits = append(bits, name)
		}
	}
	st := o.stats
	on("delivered", st["updates_delivered"] > 0)
	on("identical-suppressed", st["identical_updates_suppressed"] > 0)
	on("rejected", st["rejected_updates"] > 0)
	on("optional-absent", st["optional_callbacks_absent"] > 0)
	on("sotw-deletion", st["sotw_deletions"] > 0)
	on("deletion-ignored", st["deletions_ignored"] > 0)
	on("expiry", st["watch_expiries"] > 0)
	on("fail-before-response", st["stream_failures_before_response"] > 0)
	on("fail-after-response", st["stream_failures_after_response"] > 0)
	on("unsubscribe-all", o.pstats["unsubscribe_all_requests"] > 0)
	on("held-done", o.pstats["quiescent_recv_blocked_by_held_done"] > 0)
	sort.Strings(bits)
	return strings.Join(bits, "+")
}

// ---- family "multi": the subscription side of C43 across fallback and revert ----

// multiPrelude drives 2-3 servers through fallback / revert situations in which
// the last watch of a resource is cancelled while another server is active.
func multiPrelude(i int, s *x.Sim, g *x.Gen) []step {
	var st []step
	add := func(note string, f func()) { st = append(st, step{note, f}) }
	resp := func(srv int, typ, kind string) func() {
		return func() { s.W.Server(srv).Respond(g.MakeResponse(srv, typ, kind)) }
	}
	fail := func(srv int, v bool) func() { return func() { s.W.Server(srv).SetStreamFail(v) } }
	a := s.NewWatcher(x.TypeURLA, "r0", false)
	b := s.NewWatcher(x.TypeURLA, "r1", false)
	c := s.NewWatcher(x.TypeURLA, "r2", false)
	switch i % 4 {
	case 0: // received from the primary; primary down; fallback; last unwatch during fallback; primary back
		add("watch r0", func() { a.Start(s.C) })
		add("watch r1", func() { b.Start(s.C) })
		add("srv0 answers", resp(0, x.TypeURLA, "valid"))
		add("srv0 streams fail", fail(0, true))
		add("srv0 breaks", func() { s.W.Server(0).Break() })
		add("watch r2 (uncached: fallback on the next failure)", func() { c.Start(s.C) })
		st = append(st, sleepStep(s, 5*time.Second))
		add("cancel r0 while the fallback server is active", func() { a.Stop() })
		add("srv0 recovers", fail(0, false))
		st = append(st, sleepStep(s, 150*time.Second))
		add("srv0 answers", resp(0, x.TypeURLA, "valid"))
	case 1: // fallback at start-up, unwatch one of two during fallback, primary comes back silently, then answers
		add("srv0 streams fail", fail(0, true))
		add("watch r0", func() { a.Start(s.C) })
		add("watch r1", func() { b.Start(s.C) })
		add("srv1 answers", resp(1, x.TypeURLA, "valid"))
		add("cancel r1 during fallback", func() { b.Stop() })
		add("srv0 recovers", fail(0, false))
		st = append(st, sleepStep(s, 150*time.Second))
		add("srv0 answers", resp(0, x.TypeURLA, "valid"))
	case 2: // three servers, two fallbacks, unwatch on the last one, middle one comes back
		add("srv0 streams fail", fail(0, true))
		add("watch r0", func() { a.Start(s.C) })
		add("watch r1", func() { b.Start(s.C) })
		add("srv1 streams fail", fail(1, true))
		add("srv1 breaks", func() { s.W.Server(1).Break() })
		st = append(st, sleepStep(s, 5*time.Second))
		add("cancel r0 while srv2 is active", func() { a.Stop() })
		add("srv1 recovers", fail(1, false))
		st = append(st, sleepStep(s, 150*time.Second))
		add("srv1 answers", resp(1, x.TypeURLA, "valid"))
		add("srv0 recovers", fail(0, false))
		st = append(st, sleepStep(s, 150*time.Second))
	case 3: // unwatch while the primary is active but a fallback channel exists is impossible (revert closes it): unwatch + re-watch
		add("srv0 streams fail", fail(0, true))
		add("watch r0", func() { a.Start(s.C) })
		add("watch r1", func() { b.Start(s.C) })
		add("cancel r0 during fallback", func() { a.Stop() })
		add("watch r2", func() { c.Start(s.C) })
		add("srv0 recovers", fail(0, false))
		st = append(st, sleepStep(s, 150*time.Second))
		add("cancel r2", func() { c.Stop() })
		add("srv0 answers", resp(0, x.TypeURLA, "valid"))
	}
	return st
}

func runCaseMulti(t *testing.T, i int, rng *rand.Rand) caseOut {
	var out caseOut
	synctest.Test(t, func(t *testing.T) {
		cfg := x.SimConfig{Servers: 2 + i%4/2, NodeID: fmt.Sprintf("node-%d", i)}
		opts := x.GenOpts{Names: []string{"r0", "r1", "r2", "r3"}, HoldProb: 0.1, MaxWatchers: 7,
			StreamFail: true, Simultaneous: true,
			Weights: map[string]int{"stream-fail": 16, "break": 12, "sleep": 18, "simultaneous": 6, "respond": 26, "watch": 16, "cancel": 16}}
		steps := 25 + rng.Intn(30)
		s, err := x.NewSim(cfg)
		if err != nil {
			t.Fatalf("xdsclient.New: %v", err)
		}
		defer s.Close()
		pm := x.NewProtoModel(s)
		g := x.NewGen(s, rng, opts)
		out.det.Config = cfg
		do := func(note string, f func()) bool {
			out.det.Steps = append(out.det.Steps, note)
			evs := s.Step(note, f)
			out.steps++
			pm.Feed(evs)
			var fs []x.Finding
			for _, f := range pm.Take() {
				// only SURPLUS names are C43's business here: a name nobody watches any
				// more is still requested.  MISSING names after a revert and the other
				// fallback rules are judged (and partly listed as known findings) by C44.
				if f.Key == "unwatched-name-still-subscribed-at-quiescence" || f.Key == "request-lists-unwatched-name" {
					f.Key = "subscription-" + f.Key
					fs = append(fs, f)
				}
			}
			if len(fs) > 0 {
				out.findings = fs
				out.det.Tail = s.W.Tail(90)
				return false
			}
			return true
		}
		ok := true
		for _, p := range multiPrelude(i, s, g) {
			if ok = do(p.note, p.f); !ok {
				break
			}
		}
		for k := 0; ok && k < steps; k++ {
			note, f := g.Next()
			ok = do(note, f)
		}
		if ok {
			do("final: release all", func() { s.ReleaseAll() })
		}
		out.stats = map[string]int{}
		out.pstats = pm.Stats
		out.feat = g.Feat
	})
	return out
}

func signatureMulti(o caseOut) string {
	var bits []string
	on := func(name string, c bool) {
		if c {
			bits = append(bits, name)
		}
	}
	on(fmt.Sprintf("servers=%d", o.det.Config.Servers), true)
	on("multi-stream", o.pstats["streams"] > 2)
	on("unsubscribe-all", o.pstats["unsubscribe_all_requests"] > 0)
	on("restart+version", o.pstats["restart_requests_with_version"] > 0)
	on("send-failed", o.pstats["sends_failed"] > 0)
	on("simultaneous", o.feat["simultaneous"] > 0)
	on("cancel>2", o.feat["cancel"] > 2)
	sort.Strings(bits)
	return strings.Join(bits, "+")
}

func TestVerifC43(t *testing.T) {
	r := vlib.Start(t, "C43")
	stop := r.Watchdog(time.Duration(r.N(20, 60)) * time.Minute)
	defer stop()
	const fam = "cache"
	n := r.N(300, 5000)
	for i := 0; i < n; i++ {
		if !r.Want(fam, i) {
			continue
		}
		rng := r.Rand(fam, i)
		r.Progress(fam, i, "")
		o := runCase(t, fam, i, rng)
		r.Eval(1)
		for k, v := range o.stats {
			r.Count(k, int64(v))
		}
		r.Count("steps", int64(o.steps))
		r.Count("quiescent_names_checks", int64(o.pstats["quiescent_names_checks"]))
		for _, f := range o.findings {
			r.Violation(f.Key, fam, i, o.det, "%s", f.Msg)
		}
		if o.stats["callbacks_judged"] >= 3 && o.stats["quiescent_compares"] >= 10 {
			r.Nontrivial(signature(o))
		}
		if i < 3 {
			r.Sample(map[string]any{"case": i, "steps": o.det.Steps, "stats": o.stats})
		}
	}
	const famM = "multi"
	nm := r.N(200, 3000)
	for i := 0; i < nm; i++ {
		if !r.Want(famM, i) {
			continue
		}
		rng := r.Rand(famM, i)
		r.Progress(famM, i, "")
		o := runCaseMulti(t, i, rng)
		r.Eval(1)
		r.Count("multi_steps", int64(o.steps))
		r.Count("multi_quiescent_surplus_checks", int64(o.pstats["quiescent_surplus_checks"]))
		r.Count("multi_requests_judged", int64(o.pstats["requests_judged"]))
		r.Count("multi_streams", int64(o.pstats["streams"]))
		for _, f := range o.findings {
			r.Violation(f.Key, famM, i, o.det, "%s", f.Msg)
		}
		if o.pstats["quiescent_surplus_checks"] >= 10 && o.pstats["streams"] >= 2 {
			r.Nontrivial("multi:" + signatureMulti(o))
		}
	}
	r.Finish(vlib.Spec{
		Level: "fault_enumeration",
		Rule: "PRNG-generated scripts (30-60 steps after a deterministic prelude rotating over 6 situations) against one management server (every third case with ignore_resource_deletion): watch/cancel of 1-6 names over a SotW-complete type A and a type B, " +
			"responses (valid, identical, subset, one invalid incl. the very same invalid resource again, undecodable, empty, extra name, bursts), stream breaks before/after the first response, NewStream failures, virtual-time sleeps (0.2-150 s: 15 s expiry, backoff) and watchers that park done; " +
			"after every step the complete per-watcher callback multiset is compared with the reference cache at exact quiescence. " +
			"family 'multi' (subscription side only): 2-3 servers with fallback/revert histories (preludes cancel the last watch of a resource while a fallback server is active, then bring the higher-priority server back) - at every quiescent point the last request of each type on EVERY live stream of the authority lists no name that nobody watches, and no request ever lists a name not watched during its step. " +
			"non-trivial = >=3 callbacks judged and >=10 quiescent comparisons (multi: >=10 surplus checks on >=2 streams); distinct = set of cache situations the case reached (delivered, identical suppressed, rejected, SotW deletion, ignored deletion, expiry, stream failure before/after a response, unsubscribe-all, held done)",
		Assumptions: []string{
			"the scripted server never sends a response of a type before it received a request of that type on that stream",
			"testing/synctest: synctest.Wait() returns only when every goroutine of the client is durably blocked; timers run on virtual time",
			"R2: an error for a rejected update with the same text as the previous rejection of that resource is optional; ResourceChanged for an identical update after a NACK is optional; on a connectivity failure an uncached watcher may get either error kind",
			"a response containing an undecodable resource always lists every cached name (deletion inference from such a response is not judged)",
			"the error class of a callback is recognised from the client's documented error texts",
			"script steps are atomic (one API call or one server action per quiescent interval), so the order of API calls and responses is never ambiguous",
		},
		Floor: 10,
	})
}
