// C20 (part 2): subchannel reconnect pacing of a real grpc.ClientConn under
// virtual time.
//
// One bubble per case: pick_first, a single passthrough address, a scripted
// dialer/server that makes dial k fail (dialer error after a virtual delay,
// server closes before its preface, server never answers so the attempt dies at
// the connect deadline) or succeed (server preface + SETTINGS, connection closed
// by the server after a virtual lifetime), grpc.WithConnectParams with a
// generated backoff.Config / MinConnectTimeout, cc.ResetConnectBackoff() at
// generated virtual instants (inside dials and inside back-off periods).
//
// Instants compared (all virtual, time.Since(t0) inside the bubble):
//
//	D[k]  the dialer callback for attempt k is entered (stamped first thing)
//	F[k]  attempt k is known to have failed: stamped by the dialer immediately
//	      before it returns its error; by the script immediately before it
//	      closes the server end of a connection that never got a preface; or
//	      when the server end reads EOF because the client gave up at its connect
//	      deadline.  In every case F[k] <= the instant at which
//	      addrConn.resetTransportAndUnlock arms its back-off timer (tryAllAddrs
//	      returns only after the dialer returned / the connection was closed), so
//	      D[k+1]-F[k] is an upper bound of the time the subchannel really waited.
//	S[k]  attempt k succeeded: the client's SETTINGS ACK was read (loopy runs only
//	      after NewHTTP2Client returned nil) and the bubble is quiescent.
//	R     ResetConnectBackoff call / return stamps.
//
// Oracle (statement + gRFC connection-backoff; n counted from the statement,
// not from addrConn.backoffIdx):
//
//	lower  D[k+1]-F[k] >= (1-jitter)*min(base*mult^n, max), n = failures since
//	       the last success/reset before F[k]; not judged if a reset may lie in
//	       [F[k], D[k+1]].
//	upper  (back-off index resets after a success / stays within the window)
//	       D[k+1]-F[k] <= (1+jitter)*min(base*mult^n, max) (== base for n = 0);
//	       judged only when no reset may lie in [D[k], D[k+1]]: a reset during
//	       attempt k legitimately leaves the longer, already computed delay in
//	       force.  It relies on pick_first re-requesting the connection as soon
//	       as the subchannel leaves TRANSIENT_FAILURE (gRFC A62), which is why
//	       the channel runs pick_first with one address.
//
// Ties in virtual time between a reset and a failure are resolved towards the
// weaker bound (smaller n for lower, larger n for upper).
package c20

import (
	"context"
	"errors"
	"fmt"
	"math"
	"math/rand"
	"net"
	"sort"
	"sync"
	"testing"
	"testing/synctest"
	"time"

	"golang.org/x/net/http2"
	"google.golang.org/grpc"
	grpcbackoff "google.golang.org/grpc/backoff"
	"google.golang.org/grpc/credentials/insecure"
	"google.golang.org/grpc/verif/memconn"
	"google.golang.org/grpc/verif/vlib"
	"google.golang.org/grpc/verif/wire"
)

type paceDial struct {
	Kind       string        `json:"kind"`                  // err | early-close | hang | ok
	Delay      time.Duration `json:"delay"`                 // err: dialer latency; early-close: time until the server closes; ok: connection lifetime
	Kick       time.Duration `json:"kick,omitempty"`        // ok: pause between the close and the next Connect()/RPC
	KickRPC    bool          `json:"kick_rpc,omitempty"`    // ok: leave IDLE with an RPC instead of cc.Connect()
	ResetAfter time.Duration `json:"reset_after,omitempty"` // >0: ResetConnectBackoff this long after D[k]
}

type paceScenario struct {
	Base       time.Duration `json:"base"`
	Max        time.Duration `json:"max"`
	Mult       float64       `json:"mult"`
	Jitter     float64       `json:"jitter"`
	MinConnect time.Duration `json:"min_connect"`
	Plan       []paceDial    `json:"plan"`
}

func paceGen(rng *rand.Rand) paceScenario {
	sc := paceScenario{}
	switch rng.Intn(6) {
	case 0:
		sc.Base = time.Millisecond
	case 1:
		sc.Base = 100 * time.Millisecond
	case 2:
		sc.Base = time.Second
	case 3:
		sc.Base = 5 * time.Second
	default:
		sc.Base = time.Duration(1+rng.Int63n(20000)) * time.Millisecond
	}
	sc.Max = vlib.Pick(rng, sc.Base/2, sc.Base, sc.Base*2, sc.Base*10, sc.Base*100, 120*time.Second, time.Hour)
	sc.Mult = vlib.Pick(rng, 1, 1.2, 1.6, 1.6, 2, 4)
	sc.Jitter = vlib.Pick(rng, 0, 0, 0.05, 0.2, 0.2, 0.5, 1)
	sc.MinConnect = vlib.Pick(rng, 50*time.Millisecond, time.Second, 5*time.Second, 20*time.Second)
	n := 6 + rng.Intn(15)
	streak := 0
	for k := 0; k < n; k++ {
		d := paceDial{}
		est := float64(sc.Base) * math.Pow(sc.Mult, float64(streak))
		if est > float64(sc.Max) {
			est = float64(sc.Max)
		}
		dialDur := time.Duration(0)
		switch r := rng.Intn(100); {
		case r < 50:
			d.Kind = "err"
			if rng.Intn(5) < 2 {
				d.Delay = time.Duration(1 + rng.Int63n(int64(sc.MinConnect)))
			}
			dialDur = d.Delay
		case r < 64:
			d.Kind = "early-close"
			d.Delay = time.Duration(rng.Int63n(int64(sc.MinConnect)))
			dialDur = d.Delay
		case r < 74:
			d.Kind = "hang"
			dialDur = sc.MinConnect
			if time.Duration(est) > dialDur {
				dialDur = time.Duration(est)
			}
		default:
			d.Kind = "ok"
			d.Delay = time.Duration(rng.Int63n(int64(10 * time.Second)))
			d.Kick = time.Duration(rng.Int63n(int64(3 * time.Second)))
			d.KickRPC = rng.Intn(3) == 0
		}
		if d.Kind == "ok" {
			streak = 0
		} else {
			streak++
			switch r := rng.Intn(10); {
			case r < 1 && dialDur > 1: // inside the attempt
				d.ResetAfter = time.Duration(1 + rng.Int63n(int64(dialDur)-1))
			case r < 3 && est >= 2: // inside the back-off period (or just after it, jitter decides)
				d.ResetAfter = dialDur + time.Duration(1+rng.Int63n(int64(est)))
			}
		}
		sc.Plan = append(sc.Plan, d)
	}
	// must-hit shape: failure streak, success, failure, failure
	if n >= 8 && sc.Plan[0].Kind == "ok" {
		sc.Plan[0].Kind, sc.Plan[0].Delay = "err", 0
	}
	return sc
}

type paceEvent struct {
	K  string        `json:"k"` // dial | fail | ok | close | kick | reset
	N  int           `json:"n"` // dial index (reset: ordinal)
	At time.Duration `json:"at"`
	To time.Duration `json:"to,omitempty"` // reset: return stamp
}

type paceResult struct {
	viol     [][2]string
	inconcl  string
	counters map[string]int64
	sig      string
	events   []paceEvent
}

func (sc paceScenario) window(n int) (lo, hi float64) {
	cur := float64(sc.Base) * math.Pow(sc.Mult, float64(n))
	if cur > float64(sc.Max) {
		cur = float64(sc.Max)
	}
	lo = (1 - sc.Jitter) * cur
	hi = (1 + sc.Jitter) * cur
	if n == 0 && float64(sc.Base) > hi {
		hi = float64(sc.Base) // Backoff(0) is the base delay itself
	}
	return lo, hi
}

func paceRun(sc paceScenario) *paceResult {
	res := &paceResult{counters: map[string]int64{}}
	t0 := time.Now()
	now := func() time.Duration { return time.Since(t0) }
	var mu sync.Mutex
	var events []paceEvent
	stamp := func(k string, n int) {
		mu.Lock()
		events = append(events, paceEvent{K: k, N: n, At: now()})
		mu.Unlock()
	}
	type accepted struct {
		k int
		s *memconn.Conn
	}
	connCh := make(chan accepted, 256)
	done := make(chan struct{})
	stop := make(chan struct{})
	var doneOnce sync.Once
	var wg sync.WaitGroup
	var cc *grpc.ClientConn
	ndials, nresets := 0, 0

	sleep := func(d time.Duration) bool { // false when the case is being torn down
		if d <= 0 {
			return true
		}
		tm := time.NewTimer(d)
		defer tm.Stop()
		select {
		case <-tm.C:
			return true
		case <-stop:
			return false
		}
	}

	dialer := func(ctx context.Context, _ string) (net.Conn, error) {
		mu.Lock()
		k := ndials
		ndials++
		events = append(events, paceEvent{K: "dial", N: k, At: now()})
		mu.Unlock()
		if k >= len(sc.Plan) {
			doneOnce.Do(func() { close(done) })
			<-ctx.Done()
			return nil, ctx.Err()
		}
		p := sc.Plan[k]
		if p.ResetAfter > 0 {
			wg.Add(1)
			go func() {
				defer wg.Done()
				if !sleep(p.ResetAfter) {
					return
				}
				mu.Lock()
				idx := nresets
				nresets++
				events = append(events, paceEvent{K: "reset", N: idx, At: now(), To: -1})
				pos := len(events) - 1
				mu.Unlock()
				cc.ResetConnectBackoff()
				mu.Lock()
				events[pos].To = now()
				mu.Unlock()
			}()
		}
		if p.Kind == "err" {
			if p.Delay > 0 {
				tm := time.NewTimer(p.Delay)
				select {
				case <-tm.C:
				case <-ctx.Done():
				}
				tm.Stop()
			}
			stamp("fail", k)
			return nil, errors.New("verif: scripted dial failure")
		}
		c, s := memconn.Pipe(0)
		connCh <- accepted{k, s}
		return c, nil
	}

	var err error
	cc, err = grpc.NewClient("passthrough:///verif",
		grpc.WithTransportCredentials(insecure.NewCredentials()),
		grpc.WithContextDialer(dialer),
		grpc.WithDefaultCallOptions(grpc.ForceCodec(wire.RawCodec{})),
		grpc.WithDefaultServiceConfig(`{"loadBalancingConfig":[{"pick_first":{}}]}`),
		grpc.WithIdleTimeout(0), // channel idleness would replace the subchannel (and its failure count)
		grpc.WithConnectParams(grpc.ConnectParams{
			Backoff:           grpcbackoff.Config{BaseDelay: sc.Base, Multiplier: sc.Mult, Jitter: sc.Jitter, MaxDelay: sc.Max},
			MinConnectTimeout: sc.MinConnect,
		}))
	if err != nil {
		res.inconcl = "NewClient: " + err.Error()
		return res
	}
	var rpcCancels []context.CancelFunc
	kick := func(rpc bool) {
		if !rpc {
			cc.Connect()
			return
		}
		ctx, cancel := context.WithTimeout(context.Background(), 10*time.Minute)
		rpcCancels = append(rpcCancels, cancel)
		wg.Add(1)
		go func() {
			defer wg.Done()
			var reply []byte
			cc.Invoke(ctx, "/verif.Pace/Kick", []byte("x"), &reply)
		}()
	}

	handle := func(a accepted) {
		p := sc.Plan[a.k]
		switch p.Kind {
		case "early-close", "hang":
			eof := make(chan struct{})
			wg.Add(1)
			go func() {
				defer wg.Done()
				buf := make([]byte, 4096)
				for {
					if _, err := a.s.Read(buf); err != nil {
						close(eof)
						return
					}
				}
			}()
			var tmC <-chan time.Time
			if p.Kind == "early-close" {
				tm := time.NewTimer(p.Delay)
				defer tm.Stop()
				tmC = tm.C
			}
			select {
			case <-tmC:
				res.counters["failures_server_closed_before_preface"]++
			case <-eof:
				res.counters["failures_client_gave_up_at_connect_deadline"]++
			case <-stop:
			}
			stamp("fail", a.k)
			a.s.Close()
		case "ok":
			peer := wire.NewPeer(a.s, true)
			if err := peer.Start(); err != nil {
				res.inconcl = fmt.Sprintf("dial %d: scripted server could not start: %v", a.k, err)
				a.s.Close()
				return
			}
			synctest.Wait()
			acked := false
			for _, e := range peer.Log() {
				if e.Dir == wire.In && e.Type == http2.FrameSettings && e.Ack() {
					acked = true
				}
			}
			if !acked {
				res.inconcl = fmt.Sprintf("dial %d: the client never acknowledged the server preface", a.k)
				peer.Close()
				<-peer.Done()
				return
			}
			stamp("ok", a.k)
			sleep(p.Delay)
			stamp("close", a.k)
			peer.Close()
			<-peer.Done()
			synctest.Wait()
			if sleep(p.Kick) {
				stamp("kick", a.k)
				kick(p.KickRPC)
			}
		}
	}

	cc.Connect()
loop:
	for res.inconcl == "" {
		select {
		case a := <-connCh:
			handle(a)
		case <-done:
			break loop
		}
	}
	synctest.Wait()
	close(stop)
	for _, c := range rpcCancels {
		c()
	}
	cc.Close()
	// connections handed out while tearing down
	for {
		select {
		case a := <-connCh:
			a.s.Close()
			continue
		default:
		}
		break
	}
	wg.Wait()
	synctest.Wait()
	select {
	case a := <-connCh:
		a.s.Close()
	default:
	}
	mu.Lock()
	res.events = append([]paceEvent(nil), events...)
	mu.Unlock()
	if res.inconcl == "" {
		paceJudge(sc, res)
	}
	return res
}

// paceJudge evaluates the oracle over the recorded history only.
func paceJudge(sc paceScenario, res *paceResult) {
	v := func(key, f string, a ...any) { res.viol = append(res.viol, [2]string{key, fmt.Sprintf(f, a...)}) }
	const none = time.Duration(-1)
	nd := 0
	for _, e := range res.events {
		if e.K == "dial" && e.N+1 > nd {
			nd = e.N + 1
		}
	}
	D := make([]time.Duration, nd)
	F := make([]time.Duration, nd)
	S := make([]time.Duration, nd)
	for i := range D {
		D[i], F[i], S[i] = none, none, none
	}
	type rst struct{ call, ret time.Duration }
	var resets []rst
	for _, e := range res.events {
		switch e.K {
		case "dial":
			D[e.N] = e.At
		case "fail":
			if F[e.N] == none {
				F[e.N] = e.At
			}
		case "ok":
			S[e.N] = e.At
		case "reset":
			r := rst{e.At, e.To}
			if r.ret < 0 {
				r.ret = time.Duration(math.MaxInt64) // never returned: stays open (R3)
			}
			resets = append(resets, r)
		}
	}
	maybeIn := func(a, b time.Duration) bool { // a reset may have taken effect inside [a,b]
		for _, r := range resets {
			if r.call <= b && r.ret >= a {
				return true
			}
		}
		return false
	}
	surelyIn := func(a, b time.Duration) bool { // a reset surely took effect strictly inside (a,b)
		for _, r := range resets {
			if r.call > a && r.ret < b {
				return true
			}
		}
		return false
	}
	res.counters["dials"] += int64(nd)
	res.counters["resets"] += int64(len(resets))
	// nLoOf(k): failures surely counted at failure k since the last success / possible reset
	nLoOf := func(k int) int {
		n := 0
		for j := k - 1; j >= 0; j-- {
			if S[j] != none || F[j] == none || maybeIn(F[j], F[k]) {
				break
			}
			n++
		}
		return n
	}
	// cutShort[j]: the wait after failure j ended before even the weakest lower
	// bound while a reset touches it.  Correct code can end a back-off early only
	// through the reset, so the reset took effect inside that wait and the
	// failure count was zero when attempt j+1 started.
	cutShort := make([]bool, nd)
	for j := 0; j+1 < nd; j++ {
		if S[j] != none || F[j] == none || D[j+1] < F[j] || !maybeIn(F[j], D[j+1]) {
			continue
		}
		lo, _ := sc.window(nLoOf(j))
		if float64(D[j+1]-F[j]) < lo-(lo*1e-9+2) {
			cutShort[j] = true
			res.counters["backoffs_cut_short_by_reset"]++
		}
	}
	maxN, postSuccess, lowerN1, inDial, inGap := 0, 0, 0, 0, 0
	kinds := map[string]bool{}
	for k := 0; k < nd; k++ {
		if D[k] == none {
			v("harness-history", "dial %d has no start stamp", k)
			return
		}
		if k > 0 && D[k] < D[k-1] {
			v("harness-history", "dial stamps not monotonic at %d", k)
			return
		}
		if S[k] != none {
			res.counters["successes"]++
			continue
		}
		if F[k] == none || k+1 >= nd {
			continue // last attempt / still open: nothing to compare with
		}
		if k < len(sc.Plan) {
			kinds[sc.Plan[k].Kind] = true
		}
		res.counters["failures"]++
		if F[k] < D[k] || D[k+1] < F[k] {
			v("overlapping-attempts", "attempt %d started at %v before attempt %d had failed (%v): two concurrent connection attempts on a single-address pick_first channel", k+1, D[k+1], k, F[k])
			continue
		}
		gap := float64(D[k+1] - F[k])
		// n for the lower bound: failures surely counted since the last success / possible reset
		nLo := nLoOf(k)
		// n for the upper bound: every failure that may still count
		nHi := 0
		for j := k - 1; j >= 0; j-- {
			if S[j] != none || F[j] == none || surelyIn(F[j], D[k]) || cutShort[j] {
				break
			}
			nHi++
			if maybeIn(D[j], F[j]) { // a reset around attempt j: at most this one failure counts
				break
			}
		}
		resetInGap := maybeIn(F[k], D[k+1])
		resetInAttempt := maybeIn(D[k], F[k])
		if resetInGap {
			inGap++
			res.counters["gaps_exempt_reset_in_backoff"]++
		}
		if resetInAttempt {
			inDial++
			res.counters["failures_with_reset_during_attempt"]++
		}
		lo, _ := sc.window(nLo)
		// the real count lies somewhere in [0, nHi]; with base > max the n=0
		// delay (the base itself) is the largest, so take the larger upper end
		_, hi := sc.window(nHi)
		if _, h0 := sc.window(0); h0 > hi {
			hi = h0
		}
		slackLo := lo*1e-9 + 2
		slackHi := hi*1e-9 + 2
		if !resetInGap {
			res.counters["lower_bound_checks"]++
			if nLo >= 1 && lo > 0 {
				lowerN1++
			}
			if nLo > maxN {
				maxN = nLo
			}
			if gap < lo-slackLo {
				v("redial-before-backoff-elapsed", "attempt %d failed at %v and attempt %d started at %v: waited %v, but %d failure(s) since the last success/reset require >= (1-%g)*min(%v*%g^%d, %v) = %v (no ResetConnectBackoff in between)",
					k, F[k], k+1, D[k+1], time.Duration(gap), nLo, sc.Jitter, sc.Base, sc.Mult, nLo, sc.Max, time.Duration(lo))
			}
		}
		if !resetInGap && !resetInAttempt {
			res.counters["upper_bound_checks"]++
			after := k > 0 && S[k-1] != none
			if after {
				postSuccess++
				res.counters["post_success_checks"]++
			}
			if gap > hi+slackHi {
				if after {
					v("backoff-index-not-reset-after-success", "attempt %d succeeded, attempt %d failed at %v, attempt %d started at %v: waited %v, but the first failure after a success is paced with n=0: at most %v",
						k-1, k, F[k], k+1, D[k+1], time.Duration(gap), time.Duration(hi))
				} else {
					v("redial-after-backoff-window", "attempt %d failed at %v and attempt %d started at %v: waited %v, but at most %d failure(s) count since the last success/reset: window upper end (1+%g)*min(%v*%g^%d, %v) = %v",
						k, F[k], k+1, D[k+1], time.Duration(gap), nHi, sc.Jitter, sc.Base, sc.Mult, nHi, sc.Max, time.Duration(hi))
				}
			}
		}
	}
	if lowerN1 > 0 || postSuccess > 0 {
		var ks []string
		for k := range kinds {
			ks = append(ks, k)
		}
		sort.Strings(ks)
		res.sig = fmt.Sprintf("pace:n%d/ps%v/rd%v/rg%v/%v/j%g/m%g", bucket(maxN), postSuccess > 0, inDial > 0, inGap > 0, ks, sc.Jitter, sc.Mult)
	}
}

func TestVerifC20Pacing(t *testing.T) {
	r := vlib.Start(t, "C20")
	n := r.N(1500, 30000)
	const fam = "pacing"
	for i := 0; i < n; i++ {
		if !r.Want(fam, i) {
			continue
		}
		sc := paceGen(r.Rand(fam, i))
		r.Progress(fam, i, fmt.Sprintf("dials=%d", len(sc.Plan)))
		var res *paceResult
		synctest.Test(t, func(t *testing.T) { res = paceRun(sc) })
		r.Eval(1)
		if res.inconcl != "" {
			r.Inconclusive("case %d: %s", i, res.inconcl)
			continue
		}
		for _, x := range res.viol {
			r.Violation(x[0], fam, i, map[string]any{"scenario": sc, "events": res.events}, "%s", x[1])
		}
		keys := make([]string, 0, len(res.counters))
		for k := range res.counters {
			keys = append(keys, k)
		}
		sort.Strings(keys)
		for _, k := range keys {
			r.Count(k, res.counters[k])
		}
		if res.sig != "" {
			r.Nontrivial(res.sig)
		}
		if i < 2 {
			r.Sample(map[string]any{"scenario": sc, "events": res.events, "counters": res.counters})
		}
	}
	r.Finish(vlib.Spec{
		Level: "exploration",
		Rule:  "pacing: real ClientConn (pick_first, one address, idleness off) in a synctest bubble; generated backoff.Config (base 1ms-20s, multiplier 1-4, jitter 0-1, max from base/2 to 1h) and MinConnectTimeout; 6-20 scripted dial outcomes (dialer error with/without latency, server closes before preface, server silent until the connect deadline, success with scripted lifetime then Connect()/RPC after a pause); ResetConnectBackoff at generated offsets inside attempts and inside back-off periods; every gap D[k+1]-F[k] judged against the lower bound (and, when no reset touches the attempt, the upper end of the window); non-trivial = a lower bound with n>=1 and a positive bound, or a first-failure-after-success check, was evaluated; distinct = (max n bucket, post-success seen, reset in attempt, reset in back-off, failure kinds, jitter, multiplier)",
		Assumptions: []string{
			"pacing: F[k] is stamped no later (in virtual time) than the instant the subchannel arms its back-off timer, so the measured gap never under-estimates the real wait",
			"pacing: the upper-end check relies on pick_first reconnecting a subchannel as soon as it leaves TRANSIENT_FAILURE (gRFC A62); a reset that overlaps the failed attempt exempts the gap from it",
			"pacing: jitter draws come from the library's global PRNG (sampled, not enumerated)",
		},
		Floor: 20,
	})
}
