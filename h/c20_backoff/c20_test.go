// C20 (part 1): internal/backoff.Exponential against a big.Float reference.
package c20

import (
	"fmt"
	"math"
	"math/big"
	"math/rand"
	"testing"
	"time"

	grpcbackoff "google.golang.org/grpc/backoff"
	ibackoff "google.golang.org/grpc/internal/backoff"
	"google.golang.org/grpc/verif/vlib"
)

type cfgCase struct {
	Base    int64   `json:"base_ns"`
	Mult    float64 `json:"multiplier"`
	Jitter  float64 `json:"jitter"`
	Max     int64   `json:"max_ns"`
	Retries int     `json:"retries"`
	Got     int64   `json:"got_ns"`
}

func genDur(rng *rand.Rand) int64 {
	switch rng.Intn(9) {
	case 0:
		return 0
	case 1:
		return int64(rng.Intn(1000))
	case 2:
		return int64(time.Millisecond) * int64(1+rng.Intn(5000))
	case 3:
		return int64(time.Second) * int64(1+rng.Intn(600))
	case 4:
		return int64(1) << uint(rng.Intn(63))
	case 5:
		return math.MaxInt64
	case 6:
		return math.MaxInt64 - int64(rng.Intn(1<<20))
	case 7:
		return int64(1)<<62 + rng.Int63n(int64(1)<<62)
	default:
		return rng.Int63()
	}
}

func genCase(rng *rand.Rand) cfgCase {
	c := cfgCase{Base: genDur(rng), Max: genDur(rng)}
	switch rng.Intn(6) {
	case 0:
		c.Mult = 1
	case 1:
		c.Mult = 1.6
	case 2:
		c.Mult = 1 + rng.Float64()*9
	case 3:
		c.Mult = rng.Float64() // < 1: only non-negativity is judged
	case 4:
		c.Mult = 2
	default:
		c.Mult = 1 + rng.Float64()/100
	}
	switch rng.Intn(6) {
	case 0:
		c.Jitter = 0
	case 1:
		c.Jitter = 0.2
	case 2:
		c.Jitter = 1
	case 3:
		c.Jitter = rng.Float64()
	case 4:
		c.Jitter = 1 + rng.Float64()*2 // > 1: only non-negativity is judged
	default:
		c.Jitter = 0.5
	}
	switch rng.Intn(5) {
	case 0:
		c.Retries = 0
	case 1:
		c.Retries = 1 + rng.Intn(5)
	case 2:
		c.Retries = 1 + rng.Intn(100)
	case 3:
		c.Retries = 1 + rng.Intn(10000)
	default:
		c.Retries = 1 + rng.Intn(30)
	}
	return c
}

// bounds computes [(1-j),(1+j)]*min(base*m^n,max) in big.Float, saturated at MaxInt64.
func bounds(c cfgCase) (lo, hi *big.Float) {
	const prec = 200
	base := new(big.Float).SetPrec(prec).SetInt64(c.Base)
	max := new(big.Float).SetPrec(prec).SetInt64(c.Max)
	m := new(big.Float).SetPrec(prec).SetFloat64(c.Mult)
	cur := new(big.Float).SetPrec(prec).Set(base)
	for i := 0; i < c.Retries && cur.Cmp(max) < 0; i++ {
		cur.Mul(cur, m)
	}
	if cur.Cmp(max) > 0 {
		cur.Set(max)
	}
	j := new(big.Float).SetPrec(prec).SetFloat64(c.Jitter)
	one := new(big.Float).SetPrec(prec).SetInt64(1)
	lo = new(big.Float).SetPrec(prec).Mul(cur, new(big.Float).SetPrec(prec).Sub(one, j))
	hi = new(big.Float).SetPrec(prec).Mul(cur, new(big.Float).SetPrec(prec).Add(one, j))
	sat := new(big.Float).SetPrec(prec).SetInt64(math.MaxInt64)
	if lo.Cmp(sat) > 0 {
		lo.Set(sat)
	}
	if hi.Cmp(sat) > 0 {
		hi.Set(sat)
	}
	return lo, hi
}

func TestVerifC20Pure(t *testing.T) {
	r := vlib.Start(t, "C20")
	n := r.N(40000, 1000000)
	const fam = "pure"
	for i := 0; i < n; i++ {
		if !r.Want(fam, i) {
			continue
		}
		rng := r.Rand(fam, i)
		c := genCase(rng)
		e := ibackoff.Exponential{Config: grpcbackoff.Config{
			BaseDelay: time.Duration(c.Base), Multiplier: c.Mult, Jitter: c.Jitter, MaxDelay: time.Duration(c.Max)}}
		// the jitter draw is the library's own global PRNG: repeat to sample it
		reps := 8
		for k := 0; k < reps; k++ {
			got := int64(e.Backoff(c.Retries))
			c.Got = got
			r.Eval(1)
			if got < 0 {
				key := "negative-backoff"
				if c.Max > math.MaxInt64/4 || c.Base > math.MaxInt64/4 {
					key = "negative-backoff-huge-delay"
				}
				r.Violation(key, fam, i, c, "Backoff(%d) = %d ns < 0 for base=%d mult=%g jitter=%g max=%d", c.Retries, got, c.Base, c.Mult, c.Jitter, c.Max)
				break
			}
			if c.Retries == 0 {
				if got != c.Base {
					r.Violation("retries0-not-base", fam, i, c, "Backoff(0) = %d, want base %d", got, c.Base)
					break
				}
				continue
			}
			if c.Mult < 1 || c.Jitter < 0 || c.Jitter > 1 {
				continue
			}
			lo, hi := bounds(c)
			g := new(big.Float).SetPrec(200).SetInt64(got)
			// float64 arithmetic slack: relative 1e-9 plus 2 ns of truncation
			slack := new(big.Float).SetPrec(200).Mul(hi, big.NewFloat(1e-9))
			slack.Add(slack, big.NewFloat(2))
			loS := new(big.Float).SetPrec(200).Sub(lo, slack)
			hiS := new(big.Float).SetPrec(200).Add(hi, slack)
			if g.Cmp(loS) < 0 || g.Cmp(hiS) > 0 {
				r.Violation("out-of-bounds", fam, i, c, "Backoff(%d) = %d outside [%s, %s] for base=%d mult=%g jitter=%g max=%d",
					c.Retries, got, lo.Text('f', 0), hi.Text('f', 0), c.Base, c.Mult, c.Jitter, c.Max)
				break
			}
		}
		// non-trivial: the cap or the saturation or the jitter actually mattered
		capped := "uncapped"
		lo, hi := bounds(c)
		if c.Retries > 0 && lo.Cmp(hi) != 0 {
			capped = "jittered"
		}
		mx := new(big.Float).SetInt64(c.Max)
		if c.Retries > 0 && hi.Cmp(mx) >= 0 {
			capped += "+capped"
		}
		if c.Max > math.MaxInt64/2 {
			capped += "+nearsat"
		}
		r.Nontrivial(fmt.Sprintf("%s/m%d/j%d/r%d", capped, int(c.Mult*2), int(c.Jitter*4), bucket(c.Retries)))
		if i < 3 {
			r.Sample(c)
		}
	}
	r.Finish(vlib.Spec{
		Level: "exploration",
		Rule:  "PRNG-generated (base,multiplier,jitter,max,retries) incl. 0, 2^k, near-MaxInt64 delays, multiplier<1 and jitter>1; each config called 8x (library-global jitter draw); distinct = (jitter/cap/saturation class, multiplier bucket, jitter bucket, retries bucket)",
		Assumptions: []string{"reference bounds computed with 200-bit big.Float; 1e-9 relative + 2ns slack for float64 rounding in the implementation",
			"base and max delays are non-negative (negative delays are not a configuration)"},
		Floor: 20,
	})
}

func bucket(n int) int {
	b := 0
	for n > 0 {
		n /= 4
		b++
	}
	return b
}
