// C30: connectivity state reporting of a real grpc.ClientConn inside a synctest
// bubble.  The channel dials through a scripted network (refuse, accept,
// accept-then-close, hang, close / GOAWAY at script-chosen points), uses a
// recording LB policy that delegates to pick_first, goes idle through its real
// idle timer in virtual time, and is watched by goroutines looping over
// GetState / WaitForStateChange and by a connectivity-state subscriber.
package c30

import (
	"context"
	"fmt"
	"math/rand"
	"os"
	"sort"
	"strings"
	"sync"
	"sync/atomic"
	"testing"
	"testing/synctest"
	"time"

	"google.golang.org/grpc"
	"google.golang.org/grpc/backoff"
	"google.golang.org/grpc/connectivity"
	"google.golang.org/grpc/credentials/insecure"
	"google.golang.org/grpc/internal"
	"google.golang.org/grpc/internal/grpcsync"
	"google.golang.org/grpc/resolver"
	"google.golang.org/grpc/resolver/manual"
	"google.golang.org/grpc/verif/chanfix"
	"google.golang.org/grpc/verif/vlib"
	"google.golang.org/grpc/verif/wire"
)

type step struct {
	K     string             `json:"k"` // connect | sleep | kill | goaway | behav | resolve | updaddrs | rpc | resetbackoff | close | wait | storm
	N     int                `json:"n,omitempty"`
	D     time.Duration      `json:"d,omitempty"`
	Addr  string             `json:"addr,omitempty"`
	B     []chanfix.Behavior `json:"b,omitempty"`
	Addrs []string           `json:"addrs,omitempty"`
}

type scenario struct {
	Addrs    []string                      `json:"addrs"`
	Behav    map[string][]chanfix.Behavior `json:"behav"`
	Idle     time.Duration                 `json:"idle"` // 0 = idleness disabled
	Base     time.Duration                 `json:"base"`
	Max      time.Duration                 `json:"max"`
	Jitter   float64                       `json:"jitter"`
	MinConn  time.Duration                 `json:"min_connect"`
	Watchers int                           `json:"watchers"`
	Dial     time.Duration                 `json:"dial_latency"`
	Steps    []step                        `json:"steps"`
}

var allAddrs = []string{"a0", "a1", "a2"}

func genQueue(rng *rand.Rand) []chanfix.Behavior {
	n := 1 + rng.Intn(4)
	var q []chanfix.Behavior
	for i := 0; i < n; i++ {
		q = append(q, vlib.Pick(rng, chanfix.Refuse, chanfix.Refuse, chanfix.Accept, chanfix.Accept, chanfix.Accept, chanfix.AcceptClose, chanfix.AcceptSettingsClose, chanfix.Hang))
	}
	return q
}

func subset(rng *rand.Rand) []string {
	p := rng.Perm(len(allAddrs))
	n := 1 + rng.Intn(len(allAddrs))
	var out []string
	for _, i := range p[:n] {
		out = append(out, allAddrs[i])
	}
	return out
}

func gen(rng *rand.Rand, fam string) scenario {
	sc := scenario{Addrs: subset(rng), Behav: map[string][]chanfix.Behavior{},
		Idle:     vlib.Pick(rng, 0, time.Second, 3*time.Second, 10*time.Second),
		Base:     vlib.Pick(rng, 100*time.Millisecond, time.Second, time.Second),
		Jitter:   vlib.Pick(rng, 0.0, 0.2),
		MinConn:  vlib.Pick(rng, 500*time.Millisecond, 2*time.Second),
		Watchers: 1 + rng.Intn(8), Dial: 10 * time.Millisecond}
	sc.Max = sc.Base * time.Duration(vlib.Pick(rng, 1, 4, 20))
	for _, a := range allAddrs {
		sc.Behav[a] = genQueue(rng)
	}
	n := 12 + rng.Intn(40)
	closed := false
	for k := 0; k < n; k++ {
		switch r := rng.Intn(100); {
		case r < 14:
			sc.Steps = append(sc.Steps, step{K: "connect"})
		case r < 38:
			sc.Steps = append(sc.Steps, step{K: "sleep", D: vlib.Pick(rng, 10*time.Millisecond, 90*time.Millisecond, 300*time.Millisecond, 800*time.Millisecond, 1200*time.Millisecond, 2500*time.Millisecond, 5*time.Second, 12*time.Second, 25*time.Second)})
		case r < 48:
			sc.Steps = append(sc.Steps, step{K: "kill", N: rng.Intn(8)})
		case r < 56:
			sc.Steps = append(sc.Steps, step{K: "goaway", N: rng.Intn(8)})
		case r < 61:
			sc.Steps = append(sc.Steps, step{K: "updaddrs", N: rng.Intn(8), Addrs: subset(rng)})
		case r < 66:
			sc.Steps = append(sc.Steps, step{K: "behav", Addr: allAddrs[rng.Intn(len(allAddrs))], B: genQueue(rng)})
		case r < 74:
			sc.Steps = append(sc.Steps, step{K: "resolve", Addrs: subset(rng)})
		case r < 86:
			sc.Steps = append(sc.Steps, step{K: "rpc", D: vlib.Pick(rng, 50*time.Millisecond, 400*time.Millisecond, 1500*time.Millisecond)})
		case r < 88:
			sc.Steps = append(sc.Steps, step{K: "resetbackoff"})
		case r < 90:
			// a Connect immediately followed by UpdateAddresses: the attempt is in
			// flight (inside the dialer's latency or hanging) when its list is replaced
			sc.Steps = append(sc.Steps, step{K: "connect"}, step{K: "updaddrs", N: rng.Intn(8), Addrs: subset(rng)[:1]})
		case r < 92 && !closed && k > n/2:
			closed = true
			sc.Steps = append(sc.Steps, step{K: "close"})
		case r < 96 && fam == "storm":
			sc.Steps = append(sc.Steps, step{K: "storm", N: 5 + rng.Intn(40)})
		default:
			sc.Steps = append(sc.Steps, step{K: "wait"})
		}
	}
	if fam == "storm" {
		// servers that complete the handshake and hang up at once make every
		// Connect a full IDLE -> CONNECTING -> READY -> IDLE cycle
		for _, a := range allAddrs {
			sc.Behav[a] = []chanfix.Behavior{vlib.Pick(rng, chanfix.AcceptSettingsClose, chanfix.AcceptSettingsClose, chanfix.Accept, chanfix.Refuse)}
		}
		sc.Base = 10 * time.Millisecond
		sc.Max = 40 * time.Millisecond
		sc.Watchers = 4 + rng.Intn(5)
		// no dial latency: CONNECTING and the outcome of a refused dial are reported
		// back to back by one goroutine (closest possible pair of updates)
		sc.Dial = vlib.Pick(rng, 0, 0, 5*time.Millisecond)
		if sc.Idle > time.Second {
			sc.Idle = time.Second
		}
		// an RPC pending against servers that hang up right after the handshake makes
		// pick_first reconnect in a zero-time loop (no backoff after a successful
		// connection); that is legitimate but only burns CPU here
		for i := range sc.Steps {
			if sc.Steps[i].K == "rpc" {
				sc.Steps[i] = step{K: "connect"}
			}
		}
	}
	// bound the number of reconnect cycles a single sleep can span
	for i := range sc.Steps {
		if sc.Steps[i].K == "sleep" && sc.Steps[i].D > 120*sc.Base {
			sc.Steps[i].D = 120 * sc.Base
		}
	}
	return sc
}

var chanSeq atomic.Int64

type watcher struct {
	id      int
	obs     []connectivity.State
	waiting bool
	arg     connectivity.State
	done    bool
}

type pubEvent struct {
	st connectivity.State
	at time.Duration
}

type subscriber struct {
	mu  *sync.Mutex
	pub *[]pubEvent
	t0  time.Time
}

func (s subscriber) OnMessage(msg any) {
	st, ok := msg.(connectivity.State)
	if !ok {
		return
	}
	s.mu.Lock()
	*s.pub = append(*s.pub, pubEvent{st, time.Since(s.t0)})
	s.mu.Unlock()
}

var _ grpcsync.Subscriber = subscriber{}

type result struct {
	viol     [][2]string
	counters map[string]int64
	sigs     []string
}

// stepTag keeps the signatures of the two black-box check steps apart: the
// driver sums distinct counts.
func stepTag() string {
	if light() > 1 {
		return "race-step/"
	}
	return "plain-step/"
}

func light() int {
	if os.Getenv("VERIF_LIGHT") != "" {
		return 6
	}
	return 1
}

func run(sc scenario) *result {
	res := &result{counters: map[string]int64{}}
	seen := map[string]bool{}
	v := func(key, f string, a ...any) {
		msg := fmt.Sprintf(f, a...)
		if seen[key+msg] {
			return
		}
		seen[key+msg] = true
		res.viol = append(res.viol, [2]string{key, msg})
	}
	t0 := time.Now()
	now := func() time.Duration { return time.Since(t0) }
	nw := chanfix.NewNet(chanfix.Refuse)
	nw.DialDelay = sc.Dial
	for a, q := range sc.Behav {
		nw.Set(a, q...)
	}
	rec := chanfix.NewRecorder()
	endpoint := fmt.Sprintf("c30-%d", chanSeq.Add(1))
	chanfix.Recorders.Put(endpoint, rec)
	defer chanfix.Recorders.Delete(endpoint)
	mr := manual.NewBuilderWithScheme("verifc30")
	mkState := func(addrs []string) resolver.State {
		var st resolver.State
		for _, a := range addrs {
			st.Addresses = append(st.Addresses, resolver.Address{Addr: a})
		}
		return st
	}
	mr.InitialState(mkState(sc.Addrs))
	cc, err := grpc.NewClient("verifc30:///"+endpoint,
		grpc.WithTransportCredentials(insecure.NewCredentials()),
		grpc.WithResolvers(mr),
		grpc.WithContextDialer(nw.Dialer()),
		grpc.WithDefaultServiceConfig(chanfix.RecServiceConfig),
		grpc.WithIdleTimeout(sc.Idle),
		grpc.WithConnectParams(grpc.ConnectParams{Backoff: backoff.Config{BaseDelay: sc.Base, Multiplier: 1.6, Jitter: sc.Jitter, MaxDelay: sc.Max}, MinConnectTimeout: sc.MinConn}))
	if err != nil {
		v("harness", "NewClient: %v", err)
		return res
	}
	var mu sync.Mutex
	var pub []pubEvent
	unsub := internal.SubscribeToConnectivityStateChanges.(func(*grpc.ClientConn, grpcsync.Subscriber) func())(cc, subscriber{&mu, &pub, t0})
	defer unsub()

	wctx, wcancel := context.WithCancel(context.Background())
	var wg sync.WaitGroup
	ws := make([]*watcher, sc.Watchers)
	for i := range ws {
		w := &watcher{id: i}
		ws[i] = w
		wg.Add(1)
		go func() {
			defer wg.Done()
			for {
				s := cc.GetState()
				mu.Lock()
				w.obs = append(w.obs, s)
				if s == connectivity.Shutdown {
					w.done = true
					mu.Unlock()
					return
				}
				w.waiting, w.arg = true, s // stamped before the call
				mu.Unlock()
				ok := cc.WaitForStateChange(wctx, s)
				mu.Lock()
				w.waiting = false
				if !ok {
					w.done = true
				}
				mu.Unlock()
				if !ok {
					return
				}
			}
		}()
	}

	closedCh := false
	var resetAt []time.Duration
	evFed := 0
	type scState struct {
		id, lb     int
		addr       string   // for messages
		addrs      []string // current address list (SubConn.UpdateAddresses replaces it)
		updSeq     int      // seq of the last update-addrs event (0 = none)
		states     []chanfix.LBEvent
		shutCalled bool
		connectSeq int // seq of the LB's last Connect() call (0 = none)
		lastSeq    int
	}
	scs := map[int]*scState{}
	lbClosed := map[int]bool{}
	curLB := 0
	backoffLo := time.Duration(float64(sc.Base) * (1 - sc.Jitter))
	backoffHi := time.Duration(float64(sc.Max)*(1+sc.Jitter)) + time.Millisecond
	if sc.Max < sc.Base {
		backoffLo = time.Duration(float64(sc.Max) * (1 - sc.Jitter))
	}
	legal := func(from, to connectivity.State) bool {
		if to == connectivity.Shutdown {
			return true
		}
		switch from {
		case connectivity.Idle:
			return to == connectivity.Connecting
		case connectivity.Connecting:
			// CONNECTING -> IDLE: a connection that was established and lost before READY could be
			// reported (documented in addrConn.updateConnectivityState)
			return to == connectivity.Ready || to == connectivity.TransientFailure || to == connectivity.Idle
		case connectivity.Ready:
			return to == connectivity.Idle
		case connectivity.TransientFailure:
			return to == connectivity.Idle
		}
		return false
	}
	feed := func() {
		evs := rec.Events()
		for _, e := range evs[evFed:] {
			switch e.Kind {
			case "build":
				curLB = e.LB
			case "close":
				lbClosed[e.LB] = true
			case "new-sc":
				scs[e.SC] = &scState{id: e.SC, lb: e.LB, addr: e.Addr, addrs: []string{e.Addr}}
			case "update-addrs":
				if s := scs[e.SC]; s != nil {
					s.addrs = strings.Split(e.Addr, ",")
					s.addr = e.Addr
					s.updSeq = e.Seq
				}
			case "connect":
				if s := scs[e.SC]; s != nil {
					s.connectSeq = e.Seq
				}
			case "shutdown":
				if s := scs[e.SC]; s != nil {
					s.shutCalled = true
				}
			case "sc-state":
				s := scs[e.SC]
				if s == nil {
					v("harness", "state for unknown subchannel: %v", e)
					continue
				}
				res.counters["subchannel_states_delivered"]++
				if lbClosed[e.LB] {
					v("subchannel-update-after-lb-close", "subchannel %d (%s): state %v delivered to the LB policy after its Close() had been called: %v", e.SC, e.Addr, e.State, e)
				}
				prev := connectivity.Idle // a new subchannel is IDLE and that is not reported
				if n := len(s.states); n > 0 {
					prev = s.states[n-1].State
					if prev == connectivity.Shutdown {
						v("subchannel-update-after-shutdown", "subchannel %d (%s): %v delivered after SHUTDOWN (sequence so far %v)", e.SC, e.Addr, e.State, stateSeq(s.states))
					}
				}
				// SubConn.UpdateAddresses on a READY subchannel whose address is not in the
				// new list makes grpc reconnect at once: READY -> CONNECTING is then the
				// documented "state transition triggered by UpdateAddresses"
				viaUpdate := false
				if prev == connectivity.Ready && e.State == connectivity.Connecting && s.updSeq > 0 {
					before := 0
					if n := len(s.states); n >= 2 {
						before = s.states[n-2].Seq
					}
					viaUpdate = s.updSeq > before
				}
				if viaUpdate {
					res.counters["ready_to_connecting_by_update_addresses"]++
				}
				if prev != connectivity.Shutdown && !legal(prev, e.State) && !viaUpdate {
					v("illegal-subchannel-edge", "subchannel %d (%s): %v -> %v is not an allowed transition (delivered sequence %v + %v)", e.SC, e.Addr, prev, e.State, stateSeq(s.states), e.State)
				}
				res.sigs = append(res.sigs, fmt.Sprintf("sc:%v>%v", prev, e.State))
				if prev == connectivity.TransientFailure && e.State == connectivity.Idle {
					tf := s.states[len(s.states)-1].At
					reset := false
					for _, r := range resetAt {
						if r >= tf && r <= e.At {
							reset = true
						}
					}
					res.counters["backoff_intervals_checked"]++
					if !reset && e.At-tf < backoffLo {
						v("backoff-cut-short", "subchannel %d (%s): TRANSIENT_FAILURE at %v, IDLE at %v: only %v of backoff, the configured minimum is %v (base %v, jitter %v) and ResetConnectBackoff was not called", e.SC, e.Addr, tf, e.At, e.At-tf, backoffLo, sc.Base, sc.Jitter)
					}
				}
				s.states = append(s.states, e)
				s.lastSeq = e.Seq
			}
		}
		evFed = len(evs)
	}
	pubFed := 0
	quiesce := func(label string) {
		synctest.Wait()
		feed()
		res.counters["quiescent_checks"]++
		got := cc.GetState()
		mu.Lock()
		defer mu.Unlock()
		// channel: published sequence
		for ; pubFed < len(pub); pubFed++ {
			res.counters["channel_states_published"]++
			if pubFed > 0 {
				res.sigs = append(res.sigs, fmt.Sprintf("ch:%v>%v", pub[pubFed-1].st, pub[pubFed].st))
				if pub[pubFed-1].st == connectivity.Shutdown {
					v("channel-left-shutdown", "the channel published %v after SHUTDOWN (published: %v)", pub[pubFed].st, pubSeq(pub))
				}
			}
		}
		want := connectivity.Idle
		if len(pub) > 0 {
			want = pub[len(pub)-1].st
		}
		if closedCh {
			if got != connectivity.Shutdown {
				v("getstate-not-shutdown-after-close", "after %q: Close() has returned but GetState() = %v", label, got)
			}
		}
		if got != want {
			v("getstate-differs-from-published", "after %q at %v: GetState() = %v but the last state published to subscribers is %v (published: %v)", label, now(), got, want, pubSeq(pub))
		}
		for _, w := range ws {
			if w.done {
				continue
			}
			if !w.waiting {
				v("harness", "watcher %d neither waiting nor done at quiescence", w.id)
				continue
			}
			res.counters["watcher_checks"]++
			if w.arg != got {
				v("watcher-not-woken", "after %q at %v: watcher %d is blocked in WaitForStateChange(%v) but GetState() = %v (watcher saw %v; published %v)", label, now(), w.id, w.arg, got, stSeq(w.obs), pubSeq(pub))
			}
		}
		if closedCh {
			return
		}
		// subchannels of the live LB policy: the delivered state must match what the network did
		conns := nw.Conns()
		for _, s := range scs {
			if s.lb != curLB || lbClosed[s.lb] {
				continue
			}
			last := connectivity.Idle
			var lastEv chanfix.LBEvent
			if n := len(s.states); n > 0 {
				lastEv = s.states[n-1]
				last = lastEv.State
			}
			res.counters["subchannel_checks"]++
			if s.shutCalled {
				// SubConn.Shutdown promises one final SHUTDOWN update to a policy that is still open
				if last != connectivity.Shutdown {
					v("subchannel-update-missed", "after %q at %v: the LB policy (still open) called Shutdown() on subchannel %d (%s), everything is quiescent, but SHUTDOWN was not delivered (delivered %v)", label, now(), s.id, s.addr, stateSeq(s.states))
				}
				continue
			}
			switch last {
			case connectivity.Idle:
				if s.connectSeq > s.lastSeq && s.connectSeq > 0 {
					v("subchannel-update-missed", "after %q at %v: the LB policy called Connect() on subchannel %d (%s) after the last delivered state (%v), everything is quiescent, but no further state was delivered", label, now(), s.id, s.addr, stateSeq(s.states))
				}
			case connectivity.Connecting:
				pending := false
				for _, a := range s.addrs {
					if nw.InFlight(a) > 0 {
						pending = true
					}
				}
				for _, c := range conns {
					if has(s.addrs, c.Addr) && c.Pending() {
						pending = true
					}
				}
				if !pending {
					v("subchannel-update-missed", "after %q at %v: subchannel %d (%s) was last reported CONNECTING, everything is quiescent and no connection attempt to that address is outstanding (delivered %v; dials %v)", label, now(), s.id, s.addr, stateSeq(s.states), dialsOf(nw, s.addr))
				}
			case connectivity.Ready:
				live := false
				for _, c := range conns {
					if has(s.addrs, c.Addr) && c.Mode == chanfix.Accept && !c.Dead() {
						live = true
					}
				}
				if !live {
					v("subchannel-update-missed", "after %q at %v: subchannel %d (%s) was last reported READY but no connection to that address is alive any more (delivered %v)", label, now(), s.id, s.addr, stateSeq(s.states))
				}
			case connectivity.TransientFailure:
				if now()-lastEv.At > backoffHi {
					v("subchannel-update-missed", "after %q at %v: subchannel %d (%s) reported TRANSIENT_FAILURE at %v and nothing since; the longest possible backoff is %v", label, now(), s.id, s.addr, lastEv.At, backoffHi)
				}
			}
		}
	}

	var rpcWG sync.WaitGroup
	quiesce("start")
	for _, st := range sc.Steps {
		switch st.K {
		case "connect":
			cc.Connect()
		case "sleep":
			time.Sleep(st.D)
		case "kill":
			if live := nw.Live(); len(live) > 0 {
				live[st.N%len(live)].Close()
				res.counters["conns_killed"]++
			}
		case "goaway":
			if live := nw.Live(); len(live) > 0 {
				live[st.N%len(live)].GoAway(0)
				res.counters["goaways_sent"]++
			}
		case "behav":
			nw.Set(st.Addr, st.B...)
		case "resolve":
			mr.UpdateState(mkState(st.Addrs))
		case "updaddrs":
			// the script plays a policy that re-targets one of its live subchannels
			feed()
			var live []*scState
			for _, s := range scs {
				if s.lb == curLB && !lbClosed[s.lb] && !s.shutCalled && (len(s.states) == 0 || s.states[len(s.states)-1].State != connectivity.Shutdown) {
					live = append(live, s)
				}
			}
			sort.Slice(live, func(i, j int) bool { return live[i].id < live[j].id })
			if len(live) > 0 && !closedCh {
				t := live[st.N%len(live)]
				if rec.UpdateAddresses(t.id, st.Addrs) {
					res.counters["update_addresses_calls"]++
					if n := len(t.states); n > 0 && t.states[n-1].State == connectivity.Connecting {
						res.counters["update_addresses_while_connecting"]++
					}
				}
			}
		case "rpc":
			rpcWG.Add(1)
			go func() {
				defer rpcWG.Done()
				ctx, cancel := context.WithTimeout(context.Background(), st.D)
				defer cancel()
				cs, err := cc.NewStream(ctx, &grpc.StreamDesc{ClientStreams: true, ServerStreams: true}, "/verif.C30/Ping", grpc.ForceCodec(wire.RawCodec{}))
				if err == nil {
					cs.CloseSend()
					var b []byte
					for err == nil {
						err = cs.RecvMsg(&b)
					}
				}
			}()
		case "resetbackoff":
			// ClientConn.ResetConnectBackoff copies the cc.conns map header under cc.mu
			// and then ranges over the map WITHOUT the lock, while NewSubConn /
			// SubConn.Shutdown insert and delete under cc.mu: a genuine data race in
			// grpc-go (race detector: ResetConnectBackoff vs removeAddrConn), outside
			// this property.  The -race step therefore leaves the call out unless
			// VERIF_C30_RESET_UNDER_RACE is set (reproduction switch).
			if raceOn && os.Getenv("VERIF_C30_RESET_UNDER_RACE") == "" {
				break
			}
			resetAt = append(resetAt, now())
			cc.ResetConnectBackoff()
			resetAt = append(resetAt, now())
			res.counters["reset_connect_backoff_calls"]++
		case "storm":
			// Connect calls racing with the watchers' GetState/WaitForStateChange loops
			for i := 0; i < st.N; i++ {
				cc.Connect()
				if i%3 == 0 {
					time.Sleep(time.Millisecond)
				}
			}
		case "close":
			cc.Close()
			closedCh = true
		}
		quiesce(st.K)
	}
	if !closedCh {
		cc.Close()
		closedCh = true
		quiesce("final-close")
	}
	wcancel()
	wg.Wait()
	rpcWG.Wait()
	nw.Shutdown()
	feed()
	mu.Lock()
	// every watcher's observations must be a (stuttering) subsequence of what was published
	full := []connectivity.State{connectivity.Idle}
	for _, p := range pub {
		full = append(full, p.st)
	}
	for _, w := range ws {
		j := 0
		for k, o := range w.obs {
			for j < len(full) && full[j] != o {
				j++
			}
			if j == len(full) {
				v("watcher-saw-unpublished-sequence", "watcher %d observed %v; observation %d (%v) cannot be matched, in order, in the published sequence %v", w.id, stSeq(w.obs), k, o, stSeq(full))
				break
			}
		}
		res.counters["watcher_observations"] += int64(len(w.obs))
		if n := len(w.obs); n == 0 || w.obs[n-1] != connectivity.Shutdown {
			v("watcher-missed-shutdown", "watcher %d ended without observing SHUTDOWN after Close(): %v", w.id, stSeq(w.obs))
		}
	}
	if n := len(pub); n == 0 || pub[n-1].st != connectivity.Shutdown {
		v("shutdown-not-published", "Close() returned but the last state published to subscribers is not SHUTDOWN: %v", pubSeq(pub))
	}
	mu.Unlock()
	res.counters["dials"] = int64(len(nw.Dials()))
	res.counters["subchannels"] = int64(len(scs))
	res.counters["lb_instances"] = int64(curLB)
	return res
}

func has(xs []string, x string) bool {
	for _, y := range xs {
		if y == x {
			return true
		}
	}
	return false
}

func stateSeq(es []chanfix.LBEvent) string {
	var s []string
	for _, e := range es {
		s = append(s, fmt.Sprintf("%v@%v", e.State, e.At))
	}
	return "[" + strings.Join(s, " ") + "]"
}

func pubSeq(ps []pubEvent) string {
	var s []string
	for _, p := range ps {
		s = append(s, fmt.Sprintf("%v@%v", p.st, p.at))
	}
	if len(s) > 24 {
		s = append([]string{"…"}, s[len(s)-24:]...)
	}
	return "[" + strings.Join(s, " ") + "]"
}

func stSeq(ss []connectivity.State) string {
	var s []string
	for _, x := range ss {
		s = append(s, x.String())
	}
	if len(s) > 30 {
		s = append([]string{"…"}, s[len(s)-30:]...)
	}
	return "[" + strings.Join(s, " ") + "]"
}

func dialsOf(nw *chanfix.Net, addr string) string {
	var s []string
	for _, d := range nw.Dials() {
		if d.Addr == addr {
			s = append(s, fmt.Sprintf("%v@%v", d.Mode, d.At))
		}
	}
	return "[" + strings.Join(s, " ") + "]"
}

func runFam(t *testing.T, r *vlib.Run, fam string, n int) {
	for i := 0; i < n; i++ {
		if !r.Want(fam, i) {
			continue
		}
		sc := gen(r.Rand(fam, i), fam)
		r.Progress(fam, i, fmt.Sprintf("addrs=%v steps=%d watchers=%d", sc.Addrs, len(sc.Steps), sc.Watchers))
		var res *result
		synctest.Test(t, func(t *testing.T) { res = run(sc) })
		r.Eval(1)
		if os.Getenv("VERIF_DEBUG") != "" {
			fmt.Printf("DBG %s/%d dials=%d pub=%d scstates=%d idle=%v base=%v\n", fam, i, res.counters["dials"], res.counters["channel_states_published"], res.counters["subchannel_states_delivered"], sc.Idle, sc.Base)
		}
		for _, x := range res.viol {
			r.Violation(x[0], fam, i, sc, "%s", x[1])
		}
		keys := make([]string, 0, len(res.counters))
		for k := range res.counters {
			keys = append(keys, k)
		}
		sort.Strings(keys)
		for _, k := range keys {
			r.Count(k, res.counters[k])
		}
		if res.counters["watcher_checks"] > 0 && res.counters["channel_states_published"] > 1 {
			uniq := map[string]bool{}
			for _, s := range res.sigs {
				uniq[s] = true
			}
			var us []string
			for s := range uniq {
				us = append(us, s)
			}
			sort.Strings(us)
			r.Nontrivial(stepTag() + fam + ":" + strings.Join(us, ","))
			r.Count("distinct_edges_in_case", int64(len(us)))
		}
		if i < 2 {
			r.Sample(map[string]any{"family": fam, "scenario": sc, "counters": res.counters})
		}
	}
}

func TestVerifC30(t *testing.T) {
	r := vlib.Start(t, "C30")
	runFam(t, r, "mixed", r.N(1200, 16000)/light())
	runFam(t, r, "storm", r.N(500, 6000)/light())
	r.Finish(vlib.Spec{
		Level: "exploration",
		Rule:  "real ClientConn (manual resolver with 1-3 addresses, recording LB policy delegating to pick_first, idle timeout in {off,1s,3s,10s}, backoff base 100ms/1s, max 1-20x, jitter 0/0.2) dialing through a scripted network whose per-address behaviour queue mixes refuse, accept, accept-then-close (before and after the server preface) and hang; 12-52 steps: Connect, virtual sleeps 10ms-25s (backoff and idle timers fire), close or GOAWAY a live connection, change behaviours, resolver updates with other address subsets, SubConn.UpdateAddresses with another list on a live subchannel (also right after Connect, while the attempt is in flight), RPCs with deadlines, ResetConnectBackoff, Close in the middle, and (family storm) bursts of Connect against servers that hang up right after the handshake; 1-8 watcher goroutines loop GetState/WaitForStateChange. Oracles: per subchannel only the edges IDLE>CONNECTING, (READY>CONNECTING only directly after UpdateAddresses,) CONNECTING>READY|TRANSIENT_FAILURE|IDLE, READY>IDLE, TRANSIENT_FAILURE>IDLE, any>SHUTDOWN as delivered to the LB policy, nothing after SHUTDOWN or after the policy's Close, TRANSIENT_FAILURE>IDLE no earlier than base*(1-jitter) unless ResetConnectBackoff intervened; at every quiescent point: GetState == last state published to a subscriber, no watcher blocked in WaitForStateChange(s) with GetState != s, every live subchannel's last delivered state agrees with the network (CONNECTING needs an outstanding dial, READY a live connection, TRANSIENT_FAILURE not older than the longest backoff, a Connect() after IDLE must have produced a state); the channel publishes nothing after SHUTDOWN; every watcher's observations are an in-order subsequence of the published states and end in SHUTDOWN. Non-trivial = watchers were checked and the channel changed state; distinct = set of subchannel and channel edges seen in the case.",
		Assumptions: []string{"the published sequence is what a subscriber registered through internal.SubscribeToConnectivityStateChanges receives",
			"self-transitions (the same state delivered twice in a row) count as illegal edges; the unchanged tree de-duplicates them",
			"the CONNECTING>IDLE edge is accepted because grpc documents it (connection lost before READY could be reported)"},
		Floor: 40,
	})
}
