//go:build !race

package c30

const raceOn = false
