package e2e

import (
	"context"
	"errors"
	"fmt"
	"sync"
	"time"

	"google.golang.org/grpc/balancer"
	"google.golang.org/grpc/codes"
	"google.golang.org/grpc/connectivity"
	"google.golang.org/grpc/metadata"
	"google.golang.org/grpc/resolver"
	"google.golang.org/grpc/status"
)

// PolicyName is the registered name of the scripted test LB policy.
const PolicyName = "verif_scripted"

func init() { balancer.Register(builder{}) }

type ctlKey struct{}
type ridKey struct{}

// WithRID tags an RPC context with the harness' RPC id; scripted pickers log
// it with every pick.
func WithRID(ctx context.Context, rid string) context.Context {
	return context.WithValue(ctx, ridKey{}, rid)
}

// RID reads the tag back.
func RID(ctx context.Context) string {
	s, _ := ctx.Value(ridKey{}).(string)
	return s
}

// PickSpec is one scripted pick result.
type PickSpec struct {
	// Kind: "sc" (SubConn number SC, whatever its state), "nosc"
	// (balancer.ErrNoSubConnAvailable), "status" (status.Error(Code)),
	// "wrapped" (fmt.Errorf("…%w", status.Error(Code))), "plain"
	// (errors.New), "custom" (Err).
	Kind string      `json:"kind"`
	SC   int         `json:"sc,omitempty"`
	Code codes.Code  `json:"code,omitempty"`
	Done bool        `json:"done,omitempty"` // attach a Done callback (Kind sc)
	MD   metadata.MD `json:"md,omitempty"`
	Err  error       `json:"-"`
}

// PickerSpec scripts one picker generation: the i-th Pick call returns Seq[i],
// later calls return Then.
type PickerSpec struct {
	Seq  []PickSpec `json:"seq,omitempty"`
	Then PickSpec   `json:"then"`
}

// DoneRec is one invocation of a pick's Done callback.
type DoneRec struct {
	At            time.Duration `json:"at"`
	Err           string        `json:"err,omitempty"`
	NilErr        bool          `json:"nil_err"`
	BytesSent     bool          `json:"bytes_sent"`
	BytesReceived bool          `json:"bytes_received"`
}

// PickRec is one Pick call of a scripted picker.
type PickRec struct {
	ID      int                `json:"id"`
	Gen     int                `json:"gen"`
	RID     string             `json:"rid"`
	Method  string             `json:"method,omitempty"`
	Spec    PickSpec           `json:"spec"`
	At      time.Duration      `json:"at"`
	SCState connectivity.State `json:"sc_state"` // balancer's last view of the returned SubConn
	HasDone bool               `json:"has_done"` // a SubConn and a Done callback were returned
	Dones   []DoneRec          `json:"dones,omitempty"`
}

// SCEvent is one SubConn state change seen by the policy.
type SCEvent struct {
	At    time.Duration      `json:"at"`
	SC    int                `json:"sc"`
	State connectivity.State `json:"state"`
	Err   string             `json:"err,omitempty"`
}

type scInfo struct {
	sc    balancer.SubConn
	addr  string
	state connectivity.State
}

// Ctl is the script's handle on the verif_scripted policy of ONE channel.  It
// is handed to the policy through the resolver state attributes
// (ClientConfig.Ctl).
type Ctl struct {
	// Now supplies (virtual) timestamps; set before use.
	Now func() time.Duration
	// AutoConnect: Connect new SubConns and re-Connect them when they go IDLE
	// (default true via NewCtl).
	AutoConnect bool

	pubMu sync.Mutex // serialises UpdateState calls

	mu     sync.Mutex
	bal    *scriptedBalancer
	cur    *balancer.State
	gen    int
	picks  []*PickRec
	scs    []*scInfo
	events []SCEvent
	closed bool
	built  int
}

// NewCtl returns a controller; now supplies timestamps.
func NewCtl(now func() time.Duration) *Ctl { return &Ctl{Now: now, AutoConnect: true} }

// Publish makes the policy report state with a picker scripted by spec and
// returns the picker's generation number (1, 2, …).  Before the policy exists
// the picker is kept and published when the policy is built.
func (c *Ctl) Publish(state connectivity.State, spec PickerSpec) int {
	c.pubMu.Lock()
	defer c.pubMu.Unlock()
	c.mu.Lock()
	c.gen++
	g := c.gen
	st := balancer.State{ConnectivityState: state, Picker: &scriptedPicker{ctl: c, gen: g, spec: spec}}
	c.cur = &st
	b := c.bal
	c.mu.Unlock()
	if b != nil {
		b.cc.UpdateState(st)
	}
	return g
}

// Gen returns the latest published generation.
func (c *Ctl) Gen() int {
	c.mu.Lock()
	defer c.mu.Unlock()
	return c.gen
}

// Picks returns a deep copy of the pick log.
func (c *Ctl) Picks() []PickRec {
	c.mu.Lock()
	defer c.mu.Unlock()
	out := make([]PickRec, len(c.picks))
	for i, p := range c.picks {
		out[i] = *p
		out[i].Dones = append([]DoneRec(nil), p.Dones...)
	}
	return out
}

// SCEvents returns a copy of the SubConn state log.
func (c *Ctl) SCEvents() []SCEvent {
	c.mu.Lock()
	defer c.mu.Unlock()
	return append([]SCEvent(nil), c.events...)
}

// SCState returns the policy's last view of SubConn i (Shutdown if unknown).
func (c *Ctl) SCState(i int) connectivity.State {
	c.mu.Lock()
	defer c.mu.Unlock()
	if i < 0 || i >= len(c.scs) {
		return connectivity.Shutdown
	}
	return c.scs[i].state
}

// NumSC returns how many SubConns the policy has created.
func (c *Ctl) NumSC() int {
	c.mu.Lock()
	defer c.mu.Unlock()
	return len(c.scs)
}

// Built reports how many times the policy was built for this controller and
// whether the current instance was closed.
func (c *Ctl) Built() (int, bool) {
	c.mu.Lock()
	defer c.mu.Unlock()
	return c.built, c.closed
}

// ShutdownSC shuts SubConn i down.
func (c *Ctl) ShutdownSC(i int) {
	c.mu.Lock()
	var sc balancer.SubConn
	if i >= 0 && i < len(c.scs) {
		sc = c.scs[i].sc
	}
	c.mu.Unlock()
	if sc != nil {
		sc.Shutdown()
	}
}

// ConnectSC calls Connect on SubConn i.
func (c *Ctl) ConnectSC(i int) {
	c.mu.Lock()
	var sc balancer.SubConn
	if i >= 0 && i < len(c.scs) {
		sc = c.scs[i].sc
	}
	c.mu.Unlock()
	if sc != nil {
		sc.Connect()
	}
}

func (c *Ctl) now() time.Duration {
	if c.Now == nil {
		return 0
	}
	return c.Now()
}

type scriptedPicker struct {
	ctl   *Ctl
	gen   int
	spec  PickerSpec
	calls int // guarded by ctl.mu
}

func (p *scriptedPicker) Pick(info balancer.PickInfo) (balancer.PickResult, error) {
	c := p.ctl
	c.mu.Lock()
	defer c.mu.Unlock()
	i := p.calls
	p.calls++
	spec := p.spec.Then
	if i < len(p.spec.Seq) {
		spec = p.spec.Seq[i]
	}
	rec := &PickRec{ID: len(c.picks), Gen: p.gen, RID: RID(info.Ctx), Method: info.FullMethodName, Spec: spec, At: c.now(), SCState: connectivity.Shutdown}
	c.picks = append(c.picks, rec)
	msg := fmt.Sprintf("scripted pick %d gen %d", rec.ID, p.gen)
	switch spec.Kind {
	case "sc":
		if spec.SC < 0 || spec.SC >= len(c.scs) {
			rec.Spec.Kind = "nosc"
			return balancer.PickResult{}, balancer.ErrNoSubConnAvailable
		}
		si := c.scs[spec.SC]
		rec.SCState = si.state
		res := balancer.PickResult{SubConn: si.sc, Metadata: spec.MD}
		if spec.Done {
			rec.HasDone = true
			res.Done = func(di balancer.DoneInfo) {
				d := DoneRec{At: c.now(), NilErr: di.Err == nil, BytesSent: di.BytesSent, BytesReceived: di.BytesReceived}
				if di.Err != nil {
					d.Err = di.Err.Error()
				}
				c.mu.Lock()
				rec.Dones = append(rec.Dones, d)
				c.mu.Unlock()
			}
		}
		return res, nil
	case "status":
		return balancer.PickResult{}, status.Error(spec.Code, msg)
	case "wrapped":
		return balancer.PickResult{}, fmt.Errorf("wrapped by the picker: %w", status.Error(spec.Code, msg))
	case "plain":
		return balancer.PickResult{}, errors.New(msg + " plain error")
	case "custom":
		if spec.Err != nil {
			return balancer.PickResult{}, spec.Err
		}
	}
	rec.Spec.Kind = "nosc"
	return balancer.PickResult{}, balancer.ErrNoSubConnAvailable
}

type builder struct{}

func (builder) Name() string { return PolicyName }
func (builder) Build(cc balancer.ClientConn, _ balancer.BuildOptions) balancer.Balancer {
	return &scriptedBalancer{cc: cc, byAddr: map[string]int{}}
}

// scriptedBalancer creates one SubConn per resolved address and leaves all
// picker decisions to the Ctl.
type scriptedBalancer struct {
	cc     balancer.ClientConn
	ctl    *Ctl
	byAddr map[string]int
}

func (b *scriptedBalancer) UpdateClientConnState(s balancer.ClientConnState) error {
	ctl, _ := s.ResolverState.Attributes.Value(ctlKey{}).(*Ctl)
	if ctl == nil {
		return errors.New("verif_scripted: resolver state carries no *e2e.Ctl")
	}
	first := false
	if b.ctl == nil {
		b.ctl = ctl
		first = true
		ctl.mu.Lock()
		ctl.bal = b
		ctl.built++
		ctl.closed = false
		// a rebuilt policy (after channel idleness) starts with fresh SubConns
		ctl.scs = nil
		ctl.mu.Unlock()
	}
	for _, a := range s.ResolverState.Addresses {
		if _, ok := b.byAddr[a.Addr]; ok {
			continue
		}
		ctl.mu.Lock()
		idx := len(ctl.scs)
		si := &scInfo{addr: a.Addr, state: connectivity.Idle}
		ctl.scs = append(ctl.scs, si)
		ctl.mu.Unlock()
		b.byAddr[a.Addr] = idx
		var sc balancer.SubConn
		sc, err := b.cc.NewSubConn([]resolver.Address{a}, balancer.NewSubConnOptions{
			StateListener: func(st balancer.SubConnState) { b.onSC(idx, sc, st) },
		})
		if err != nil {
			return err
		}
		ctl.mu.Lock()
		si.sc = sc
		ctl.mu.Unlock()
		if ctl.AutoConnect {
			sc.Connect()
		}
	}
	if first {
		ctl.pubMu.Lock()
		ctl.mu.Lock()
		cur := ctl.cur
		ctl.mu.Unlock()
		if cur != nil {
			b.cc.UpdateState(*cur)
		}
		ctl.pubMu.Unlock()
	}
	return nil
}

func (b *scriptedBalancer) onSC(idx int, sc balancer.SubConn, st balancer.SubConnState) {
	c := b.ctl
	c.mu.Lock()
	if idx < len(c.scs) && c.scs[idx].sc == sc {
		c.scs[idx].state = st.ConnectivityState
	}
	ev := SCEvent{At: c.now(), SC: idx, State: st.ConnectivityState}
	if st.ConnectionError != nil {
		ev.Err = st.ConnectionError.Error()
	}
	c.events = append(c.events, ev)
	closed := c.closed
	c.mu.Unlock()
	if st.ConnectivityState == connectivity.Idle && c.AutoConnect && !closed {
		sc.Connect()
	}
}

func (b *scriptedBalancer) ResolverError(error)                                        {}
func (b *scriptedBalancer) UpdateSubConnState(balancer.SubConn, balancer.SubConnState) {}
func (b *scriptedBalancer) ExitIdle() {
	if b.ctl == nil {
		return
	}
	b.ctl.mu.Lock()
	scs := append([]*scInfo(nil), b.ctl.scs...)
	b.ctl.mu.Unlock()
	for _, si := range scs {
		if si.sc != nil {
			si.sc.Connect()
		}
	}
}

func (b *scriptedBalancer) Close() {
	if b.ctl == nil {
		return
	}
	b.ctl.mu.Lock()
	if b.ctl.bal == b {
		b.ctl.bal = nil
		b.ctl.closed = true
	}
	scs := append([]*scInfo(nil), b.ctl.scs...)
	b.ctl.mu.Unlock()
	for _, si := range scs {
		if si.sc != nil {
			si.sc.Shutdown()
		}
	}
}
