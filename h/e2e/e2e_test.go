package e2e

import (
	"context"
	"testing"
	"testing/synctest"
	"time"

	"google.golang.org/grpc"
	"google.golang.org/grpc/codes"
	"google.golang.org/grpc/connectivity"
	"google.golang.org/grpc/status"
)

// Self-test of the fixture (not a registered check): a unary RPC through the
// scripted policy to a real server inside a bubble; Done is seen once; the
// bubble ends with no goroutine left.
func TestFixture(t *testing.T) {
	synctest.Test(t, func(t *testing.T) {
		clk := NewClock()
		n := NewNet()
		b := NewBackend(n, "b0", func(_ any, ss grpc.ServerStream) error {
			var m []byte
			if err := ss.RecvMsg(&m); err != nil {
				return err
			}
			return ss.SendMsg(append([]byte("echo:"), m...))
		})
		ctl := NewCtl(clk.Now)
		ctl.Publish(connectivity.Connecting, PickerSpec{Then: PickSpec{Kind: "nosc"}})
		c, err := NewClient(n, ClientConfig{Addrs: []string{"b0"}, ServiceConfig: SC(PolicyName, ""), Ctl: ctl})
		if err != nil {
			t.Fatal(err)
		}
		c.CC.Connect()
		synctest.Wait()
		if st := ctl.SCState(0); st != connectivity.Ready {
			t.Fatalf("subconn state %v, want READY; events %+v", st, ctl.SCEvents())
		}
		errc := make(chan error, 1)
		var reply []byte
		go func() {
			errc <- c.CC.Invoke(WithRID(context.Background(), "r0"), "/svc/M", []byte("hi"), &reply)
		}()
		synctest.Wait()
		select {
		case err := <-errc:
			t.Fatalf("RPC returned %v while the picker says no subconn", err)
		default:
		}
		ctl.Publish(connectivity.Ready, PickerSpec{Then: PickSpec{Kind: "sc", SC: 0, Done: true}})
		if err := <-errc; err != nil || string(reply) != "echo:hi" {
			t.Fatalf("RPC: %v %q", err, reply)
		}
		picks := ctl.Picks()
		if len(picks) != 2 || picks[0].Gen != 1 || picks[1].Gen != 2 || len(picks[1].Dones) != 1 || picks[1].RID != "r0" {
			t.Fatalf("pick log %+v", picks)
		}
		// a status error from the picker
		ctl.Publish(connectivity.TransientFailure, PickerSpec{Then: PickSpec{Kind: "status", Code: codes.NotFound}})
		err = c.CC.Invoke(context.Background(), "/svc/M", []byte("x"), &reply)
		if status.Code(err) != codes.Internal {
			t.Fatalf("restricted picker status surfaced as %v", err)
		}
		time.Sleep(time.Hour)
		c.CC.Close()
		b.S.Stop()
	})
}
