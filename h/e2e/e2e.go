// Package e2e is engine E2: a real grpc.ClientConn against real grpc.Servers
// (and/or scripted wire peers) over memconn inside testing/synctest bubbles,
// with a manual resolver, a routing dialer with fault injection, and a
// registered test LB policy ("verif_scripted") whose pickers return scripted
// results and tag every Done callback with a unique pick id.
//
// Everything here must be created INSIDE the bubble of the case that uses it
// (channels and timers must belong to the bubble); the only process-global
// state is the LB policy registration done in init.
package e2e

import (
	"context"
	"fmt"
	"net"
	"sync"
	"time"

	"google.golang.org/grpc"
	"google.golang.org/grpc/credentials/insecure"
	"google.golang.org/grpc/internal"
	"google.golang.org/grpc/resolver"
	"google.golang.org/grpc/resolver/manual"
	"google.golang.org/grpc/serviceconfig"
	"google.golang.org/grpc/verif/memconn"
	"google.golang.org/grpc/verif/wire"
)

// ---------------------------------------------------------------------------
// Net: address -> endpoint routing for the client's dialer.

// Net routes the channel's dials by address to real servers (listeners) or
// to scripted peers (raw connection queues).
type Net struct {
	mu    sync.Mutex
	lis   map[string]*memconn.Listener
	raw   map[string]chan *memconn.Conn
	dials map[string]int
	// DialHook, if set (before the first dial), is consulted before every
	// dial; n is the 0-based attempt number for that address.  A non-nil
	// error fails the dial.  The hook may block on ctx (a dial that hangs).
	DialHook func(ctx context.Context, addr string, n int) error
}

// NewNet returns an empty routing table.
func NewNet() *Net {
	return &Net{lis: map[string]*memconn.Listener{}, raw: map[string]chan *memconn.Conn{}, dials: map[string]int{}}
}

// AddListener routes addr to a listener (a real server).
func (n *Net) AddListener(addr string, l *memconn.Listener) {
	n.mu.Lock()
	n.lis[addr] = l
	n.mu.Unlock()
}

// AddRaw routes addr to a scripted peer: the server end of every dialed
// connection is queued on the returned channel (wrap it with wire.NewPeer).
func (n *Net) AddRaw(addr string) <-chan *memconn.Conn {
	ch := make(chan *memconn.Conn, 64)
	n.mu.Lock()
	n.raw[addr] = ch
	n.mu.Unlock()
	return ch
}

// Dials returns how many dials were attempted for addr.
func (n *Net) Dials(addr string) int {
	n.mu.Lock()
	defer n.mu.Unlock()
	return n.dials[addr]
}

// Dial is the grpc.WithContextDialer function.
func (n *Net) Dial(ctx context.Context, addr string) (net.Conn, error) {
	n.mu.Lock()
	k := n.dials[addr]
	n.dials[addr]++
	hook := n.DialHook
	l := n.lis[addr]
	raw := n.raw[addr]
	n.mu.Unlock()
	if hook != nil {
		if err := hook(ctx, addr, k); err != nil {
			return nil, err
		}
	}
	switch {
	case l != nil:
		c, err := l.Dial()
		if err != nil {
			return nil, err
		}
		return c, nil
	case raw != nil:
		c, s := memconn.Pipe(0)
		select {
		case raw <- s:
			return c, nil
		case <-ctx.Done():
			return nil, ctx.Err()
		}
	}
	return nil, fmt.Errorf("e2e: no route to %q", addr)
}

// ---------------------------------------------------------------------------
// Backend: a real server.

// Backend is a real grpc.Server on an in-memory listener with the raw codec
// forced; every method reaches the handler.
type Backend struct {
	S    *grpc.Server
	L    *memconn.Listener
	Addr string
}

// NewBackend creates (and starts serving) a server reachable under addr in n.
func NewBackend(n *Net, addr string, handler grpc.StreamHandler, opts ...grpc.ServerOption) *Backend {
	base := []grpc.ServerOption{grpc.ForceServerCodec(wire.RawCodec{})}
	if handler != nil {
		base = append(base, grpc.UnknownServiceHandler(handler))
	}
	b := &Backend{S: grpc.NewServer(append(base, opts...)...), L: memconn.NewListener(), Addr: addr}
	n.AddListener(addr, b.L)
	go b.S.Serve(b.L)
	return b
}

// ---------------------------------------------------------------------------
// Client.

// ClientConfig describes the channel under test.
type ClientConfig struct {
	Addrs []string
	// ServiceConfig is the JSON service config handed to the channel with
	// every resolver result ("" = "{}").  Use SC() to build one.
	ServiceConfig string
	// Ctl, if non-nil, is attached to the resolver state so that the
	// verif_scripted policy (selected through ServiceConfig) finds it.
	Ctl *Ctl
	// HoldResolver: the manual resolver reports nothing until Resolve().
	HoldResolver bool
	// Decorate, if set, may modify every resolver state before it is pushed
	// (e.g. to attach a config selector).
	Decorate func(resolver.State) resolver.State
	DialOpts []grpc.DialOption
}

// Client is a real grpc.ClientConn on a manual resolver and the Net dialer.
type Client struct {
	CC  *grpc.ClientConn
	R   *manual.Resolver
	Net *Net
	cfg ClientConfig
}

// ParseSC parses a service config JSON with the channel's own parser.
func ParseSC(js string) *serviceconfig.ParseResult {
	if js == "" {
		js = "{}"
	}
	return internal.ParseServiceConfig.(func(string) *serviceconfig.ParseResult)(js)
}

// SC builds a service config JSON: lb is the LB policy name ("" = default
// pick_first), methodConfig the JSON of one methodConfig entry body without the
// name field ("" = none), applied to all methods.
func SC(lb, methodConfig string) string {
	s := "{"
	sep := ""
	if lb != "" {
		s += fmt.Sprintf(`"loadBalancingConfig":[{%q:{}}]`, lb)
		sep = ","
	}
	if methodConfig != "" {
		s += sep + `"methodConfig":[{"name":[{}],` + methodConfig + `}]`
	}
	return s + "}"
}

// State builds the resolver state the client pushes.
func (c *Client) State(addrs []string) resolver.State {
	st := resolver.State{ServiceConfig: ParseSC(c.cfg.ServiceConfig)}
	for _, a := range addrs {
		st.Addresses = append(st.Addresses, resolver.Address{Addr: a})
	}
	if c.cfg.Ctl != nil {
		st.Attributes = st.Attributes.WithValue(ctlKey{}, c.cfg.Ctl)
	}
	if c.cfg.Decorate != nil {
		st = c.cfg.Decorate(st)
	}
	return st
}

// NewClient creates the channel (lazily connected, like grpc.NewClient).
func NewClient(n *Net, cfg ClientConfig) (*Client, error) {
	c := &Client{Net: n, cfg: cfg, R: manual.NewBuilderWithScheme("verif")}
	if !cfg.HoldResolver {
		c.R.InitialState(c.State(cfg.Addrs))
	}
	base := []grpc.DialOption{
		grpc.WithResolvers(c.R),
		grpc.WithTransportCredentials(insecure.NewCredentials()),
		grpc.WithContextDialer(n.Dial),
		grpc.WithDefaultCallOptions(grpc.ForceCodec(wire.RawCodec{})),
	}
	cc, err := grpc.NewClient("verif:///svc", append(base, cfg.DialOpts...)...)
	if err != nil {
		return nil, err
	}
	c.CC = cc
	return c, nil
}

// Resolve pushes a resolver result with the configured (or given) addresses.
func (c *Client) Resolve(addrs ...string) {
	if len(addrs) == 0 {
		addrs = c.cfg.Addrs
	}
	c.R.UpdateState(c.State(addrs))
}

// Clock measures virtual time since its creation.
type Clock struct{ t0 time.Time }

// NewClock starts a clock (call inside the bubble).
func NewClock() Clock { return Clock{t0: time.Now()} }

// Now is the (virtual) time elapsed since NewClock.
func (c Clock) Now() time.Duration { return time.Since(c.t0) }
