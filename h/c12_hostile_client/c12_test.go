// C12: a misbehaving CLIENT cannot crash the server or reach a handler
// illegally; MaxConcurrentStreams is respected, also under RST-and-reopen
// storms.
//
// A real grpc.Server (engine E1, inside a synctest bubble) with
// MaxConcurrentStreams in {1,2,3,10} and a catch-all handler is driven by a
// scripted HTTP/2 client that plays sequences from a frame grammar and
// byte-mutated variants of valid frame bytes.  Every request header block the
// script sends carries a unique, checksummed x-tag and is classified by an
// independent validator written from the statement (classify below) BEFORE it
// is sent.  Oracles:
//
//   - the process does not panic / die (cases run in child processes, see
//     isolate_test.go);
//   - no handler is invoked for a block classified illegal (illegal stream id,
//     :method != POST, invalid content-type, malformed grpc-timeout, duplicate
//     :authority / host, undecodable -bin metadata, connection header);
//   - a header block reaches at most one handler;
//   - handlers running for one connection never exceed MaxConcurrentStreams
//     (in-process counter, checked at every handler entry), including when
//     streams are reset and re-opened in storms while their handlers linger;
//   - refusal probe: at a quiescent point with exactly MaxConcurrentStreams
//     handlers running on live (un-cancelled) streams, a further legal stream
//     gets RST_STREAM(REFUSED_STREAM) and no handler;
//   - a stream answered with REFUSED_STREAM never had a handler;
//   - after Stop/GracefulStop every handler has returned and the bubble
//     terminates (synctest's "blocked goroutines remain" is the leak detector).
//
// Soundness notes (BUILDING.md rule 2): only what the statement / gRPC HTTP/2
// spec makes clearly illegal is classified illegal; anything else the script
// sends (HTTP/2-level malformations such as upper-case names or misplaced
// pseudo headers, mixed duplicates, odd te, unknown encodings, ids reused after
// a block that was itself malformed or oversized, everything on a connection
// whose frame alignment was destroyed by raw bytes) is "unknown" and only the
// crash / concurrency oracles apply to it.
package c12

import (
	"context"
	"errors"
	"fmt"
	"hash/fnv"
	"io"
	"math/rand"
	"os"
	"sort"
	"strings"
	"sync"
	"testing"
	"testing/synctest"
	"time"

	"golang.org/x/net/http2"
	"google.golang.org/grpc"
	"google.golang.org/grpc/codes"
	"google.golang.org/grpc/metadata"
	"google.golang.org/grpc/status"
	"google.golang.org/grpc/verif/memconn"
	"google.golang.org/grpc/verif/vlib"
	"google.golang.org/grpc/verif/wire"
)

// ---------------------------------------------------------------- scenario

type scenario struct {
	Fam        string   `json:"fam"`
	Seed       int64    `json:"seed"`
	MaxStreams int      `json:"max_concurrent_streams"`
	MaxHdrList int      `json:"max_header_list,omitempty"`
	Handshakes []string `json:"handshakes"`
	AckSet     bool     `json:"ack_settings"`
	AckPing    bool     `json:"ack_pings"`
	NOps       int      `json:"nops"`
	MaxConns   int      `json:"max_conns"`
	Focus      string   `json:"focus,omitempty"`
	Graceful   bool     `json:"graceful_stop,omitempty"`
}

var focusKinds = []string{"WINDOW-FILL", "HEADERS-LEGAL", "HEADERS-ILLEGAL", "HEADERS-UNKNOWN", "DATA", "RST_STREAM", "SETTINGS", "PING", "WINDOW_UPDATE", "PROBE", "STORM", "CONTINUATION", "GOAWAY", "PUSH_PROMISE", "PRIORITY", "UNKNOWN", "OVERSIZE", "HEADERS-NOEND"}

func gen(rng *rand.Rand, fam string, i int) scenario {
	sc := scenario{Fam: fam, Seed: rng.Int63(), MaxStreams: vlib.Pick(rng, 1, 2, 3, 10), AckSet: rng.Intn(5) != 0, AckPing: rng.Intn(5) != 0,
		NOps: 10 + rng.Intn(50), MaxConns: 1 + rng.Intn(4), Graceful: rng.Intn(3) == 0}
	if rng.Intn(5) == 0 {
		sc.MaxHdrList = vlib.Pick(rng, 4096, 65536)
	}
	for k := 0; k < sc.MaxConns; k++ {
		h := "ok"
		if fam == "handshake" || rng.Intn(8) == 0 {
			h = vlib.Pick(rng, "ok", "hostile-settings", "iws-zero", "bad-preface", "no-settings", "silent", "close", "partial-preface-then-close", "settings-ack-first")
		}
		sc.Handshakes = append(sc.Handshakes, h)
	}
	if fam == "grammar" && i%2 == 0 {
		sc.Focus = focusKinds[(i/2)%len(focusKinds)]
	}
	if fam == "limit" {
		sc.Focus = vlib.Pick(rng, "PROBE", "STORM")
		sc.Handshakes[0] = "ok"
	}
	if fam == "window" {
		// the client withholds flow-control window: responses stay queued, the
		// streams stay open on the wire after their handlers have returned
		sc.Focus = "WINDOW-FILL"
		sc.MaxHdrList = 0
		for k := range sc.Handshakes {
			sc.Handshakes[k] = "iws-zero"
		}
	}
	return sc
}

// ---------------------------------------------------------------- validator

// classify is the independent validator: it decides from the header fields,
// the stream id and what was sent before on the connection whether a request
// header block is clearly illegal (reason != ""), and whether it is clean at
// the HTTP/2 layer (clean blocks open their stream in the ordinary way, so
// their ids bound later ids from below).
func classify(fields []hf, id uint32, maxClean uint32, hdrLimit int) (reasons []string, clean bool) {
	clean = true
	values := map[string][]string{}
	seenRegular := false
	size := 0
	for _, x := range fields {
		size += len(x.Name) + len(x.Value) + 32
		values[x.Name] = append(values[x.Name], x.Value)
		if !tokenName(x.Name) {
			clean = false
		}
		for k := 0; k < len(x.Value); k++ {
			if b := x.Value[k]; (b < 0x20 && b != '\t') || b == 0x7f {
				clean = false
			}
		}
		if strings.HasPrefix(x.Name, ":") {
			if seenRegular {
				clean = false
			}
			switch x.Name {
			case ":method", ":scheme", ":path", ":authority":
			default:
				clean = false
			}
		} else {
			seenRegular = true
		}
	}
	for _, n := range []string{":method", ":scheme", ":path"} {
		if len(values[n]) != 1 {
			clean = false
		}
	}
	if len(values[":authority"]) > 1 || len(values["connection"]) > 0 {
		clean = false
	}
	if te := values["te"]; len(te) > 0 && !(len(te) == 1 && te[0] == "trailers") {
		clean = false
	}
	limit := 2000
	if hdrLimit > 0 && hdrLimit/2 < limit {
		limit = hdrLimit / 2
	}
	if size > limit {
		clean = false
	}

	// --- stream id
	switch {
	case id == 0:
		reasons = append(reasons, "stream-id-zero")
	case id%2 == 0:
		reasons = append(reasons, "stream-id-even")
	case id <= maxClean:
		reasons = append(reasons, "stream-id-not-increasing")
	}
	// --- :method (illegal when no value is POST)
	if m := values[":method"]; !contains(m, "POST") {
		reasons = append(reasons, "method-not-post")
	}
	// --- content-type (illegal when no value is application/grpc[+;]...)
	okCT, maybeCT := false, false
	for _, v := range values["content-type"] {
		lv := strings.ToLower(v)
		switch {
		case v == "application/grpc" || strings.HasPrefix(v, "application/grpc+") || strings.HasPrefix(v, "application/grpc;"):
			okCT = true
		case lv == "application/grpc" || strings.HasPrefix(lv, "application/grpc+") || strings.HasPrefix(lv, "application/grpc;"):
			maybeCT = true // media types are case-insensitive in HTTP: not judged
		}
	}
	if !okCT && !maybeCT {
		reasons = append(reasons, "content-type-invalid")
	}
	// --- grpc-timeout (illegal when every value is malformed)
	if tv := values["grpc-timeout"]; len(tv) > 0 {
		bad := 0
		for _, v := range tv {
			if !validTimeout(v) {
				bad++
			}
		}
		if bad == len(tv) {
			reasons = append(reasons, "grpc-timeout-malformed")
		}
	}
	// --- duplicate :authority / host
	if len(values[":authority"]) > 1 {
		reasons = append(reasons, "duplicate-authority")
	}
	if len(values["host"]) > 1 {
		reasons = append(reasons, "duplicate-host")
	}
	// --- undecodable binary metadata (user metadata only: grpc-* names are reserved)
	for n, vs := range values {
		if !strings.HasSuffix(n, "-bin") || strings.HasPrefix(n, "grpc-") || strings.HasPrefix(n, ":") {
			continue
		}
		for _, v := range vs {
			if !decodableBase64(v) {
				reasons = append(reasons, "binary-metadata-undecodable")
			}
		}
	}
	// --- connection-specific header
	if len(values["connection"]) > 0 {
		reasons = append(reasons, "connection-header")
	}
	sort.Strings(reasons)
	return uniq(reasons), clean
}

// tokenName: lower-case header field name made of characters every HTTP/2
// implementation accepts (a leading ':' marks a pseudo header).
func tokenName(n string) bool {
	if n == "" || n == ":" {
		return false
	}
	for k := 0; k < len(n); k++ {
		c := n[k]
		switch {
		case c >= 'a' && c <= 'z', c >= '0' && c <= '9', c == '-', c == '_', c == '.':
		case c == ':' && k == 0:
		default:
			return false
		}
	}
	return true
}

func contains(xs []string, s string) bool {
	for _, x := range xs {
		if x == s {
			return true
		}
	}
	return false
}

func uniq(xs []string) []string {
	var out []string
	for i, x := range xs {
		if i == 0 || xs[i-1] != x {
			out = append(out, x)
		}
	}
	return out
}

// validTimeout: TimeoutValue TimeoutUnit, 1-8 ASCII digits and one of HMSmun
// (gRPC over HTTP/2 spec).
func validTimeout(v string) bool {
	if len(v) < 2 || len(v) > 9 {
		return false
	}
	if !strings.ContainsRune("HMSmun", rune(v[len(v)-1])) {
		return false
	}
	for _, c := range v[:len(v)-1] {
		if c < '0' || c > '9' {
			return false
		}
	}
	return true
}

// decodableBase64 is deliberately generous: any value made of the standard or
// URL-safe alphabet with optional padding whose unpadded length is not 1 mod 4
// counts as decodable; only values that no base64 variant can decode are
// "undecodable".
func decodableBase64(v string) bool {
	t := strings.TrimRight(v, "=")
	if len(v)-len(t) > 2 {
		return false
	}
	for _, c := range t {
		switch {
		case c >= 'A' && c <= 'Z', c >= 'a' && c <= 'z', c >= '0' && c <= '9', c == '+', c == '/', c == '-', c == '_', c == ',':
		default:
			return false
		}
	}
	if strings.Contains(t, ",") {
		return true // comma-joined values: not judged
	}
	return len(t)%4 != 1
}

// ---------------------------------------------------------------- run state

type block struct {
	tag      string
	conn     int
	id       uint32
	class    string // legal | illegal | unknown
	reasons  []string
	beh      string
	desc     string
	runs     int
	finished int // handler invocations that have returned
	probe    bool
	refused  bool
	sentLive bool
}

type hstate struct {
	b       *block
	conn    int
	ctx     context.Context
	gate    chan struct{}
	once    sync.Once
	done    bool
	started time.Duration
}

func (h *hstate) release() { h.once.Do(func() { close(h.gate) }) }

type cstream struct {
	blk       *block
	id        uint32
	endSent   bool
	closed    bool // RST sent or seen, or the server ended it
	hasHandle bool
}

type cconn struct {
	idx       int
	peer      *wire.Peer
	raw       *memconn.Conn
	alive     bool
	reader    bool
	fed       int
	streams   map[uint32]*cstream
	order     []uint32
	maxAny    uint32 // highest id used in any HEADERS we sent
	maxClean  uint32 // highest id used in a block that was clean at the HTTP/2 layer
	enc       *henc
	tainted   bool // raw bytes / interleaved header blocks were written: classification is off
	goaway    bool // the server has sent GOAWAY
	idCount   map[uint32]int
	refusedID map[uint32]bool
	hsOK      bool
	overLimit bool
}

type execState struct {
	sc   scenario
	rng  *rand.Rand
	res  *caseResult
	t0   time.Time
	fx   *wire.ServerFixture
	cur  *cconn
	all  []*cconn
	nTag int

	mu       sync.Mutex // guards everything below and res
	blocks   map[string]*block
	handlers []*hstate
	running  map[int]int // tagged handlers running per connection
	untagged int
	draining bool // handlers entering now do not wait for their gate
	sigs     map[string]bool
	trace    []string
}

func (x *execState) now() time.Duration { return time.Since(x.t0) }

func (x *execState) vLocked(key, format string, a ...any) {
	x.res.Viol = append(x.res.Viol, [2]string{key, fmt.Sprintf(format, a...)})
}

func (x *execState) v(key, format string, a ...any) {
	x.mu.Lock()
	defer x.mu.Unlock()
	x.vLocked(key, format, a...)
}

func (x *execState) count(name string, d int64) {
	x.mu.Lock()
	x.res.Counters[name] += d
	x.mu.Unlock()
}

func (x *execState) tr(format string, a ...any) {
	s := fmt.Sprintf("@%v ", x.now()) + fmt.Sprintf(format, a...)
	x.mu.Lock()
	x.trace = append(x.trace, s)
	if len(x.trace) > 80 {
		x.trace = x.trace[len(x.trace)-80:]
	}
	x.mu.Unlock()
	if os.Getenv("VERIF_DEBUG") != "" {
		fmt.Println("TRACE", s)
	}
}

func (x *execState) sig(c *cconn, typ, sclass, fclass string) {
	x.tr("conn%d %s stream=%s %s", c.idx, typ, sclass, fclass)
	x.count("frames_ops_"+typ, 1)
	if c.alive {
		x.mu.Lock()
		x.sigs[typ+"/"+sclass+"/"+fclass] = true
		x.mu.Unlock()
	} else {
		x.count("ops_on_dead_conn", 1)
	}
}

func tagSum(seed int64, s string) string {
	h := fnv.New32a()
	fmt.Fprintf(h, "%d/%s", seed, s)
	return fmt.Sprintf("%08x", h.Sum32())
}

func (x *execState) newTag(prefix string) string {
	x.nTag++
	base := fmt.Sprintf("%s%d", prefix, x.nTag)
	return base + "-" + tagSum(x.sc.Seed, base)
}

func (x *execState) validTag(tag string) bool {
	k := strings.LastIndexByte(tag, '-')
	return k > 0 && tag[k+1:] == tagSum(x.sc.Seed, tag[:k])
}

// ---------------------------------------------------------------- handler

func (x *execState) handler(_ any, ss grpc.ServerStream) error {
	ctx := ss.Context()
	md, _ := metadata.FromIncomingContext(ctx)
	tag := ""
	if t := md.Get("x-tag"); len(t) > 0 {
		tag = t[0]
	}
	h := &hstate{ctx: ctx, gate: make(chan struct{}), conn: -1, started: x.now()}
	beh := "gate"
	x.mu.Lock()
	x.res.Counters["handler_invocations"]++
	if b := x.blocks[tag]; b != nil && x.validTag(tag) {
		h.b, h.conn = b, b.conn
		beh = b.beh
		b.runs++
		x.running[b.conn]++
		n := x.running[b.conn]
		if n == x.sc.MaxStreams {
			x.res.Counters["handler_entries_at_exact_limit"]++
		}
		if n > x.sc.MaxStreams {
			x.vLocked("handlers-exceed-max-concurrent-streams", "%d handlers are running for connection %d, MaxConcurrentStreams is %d (entered for block %s: %s)", n, b.conn, x.sc.MaxStreams, b.tag, b.desc)
		}
		if b.runs > 1 {
			x.vLocked("handler-invoked-twice", "block %s (stream %d, conn %d) reached a handler %d times", b.tag, b.id, b.conn, b.runs)
		}
		switch b.class {
		case "illegal":
			x.vLocked("handler-ran:"+b.reasons[0], "a handler was invoked for a request classified illegal (%s): conn %d stream %d %s", strings.Join(b.reasons, ","), b.conn, b.id, b.desc)
		case "legal":
			x.res.Counters["handler_for_legal_block"]++
		default:
			x.res.Counters["handler_for_unjudged_block"]++
		}
	} else {
		x.untagged++
		x.res.Counters["handler_untagged"]++
	}
	x.handlers = append(x.handlers, h)
	if x.draining {
		h.release()
	}
	x.mu.Unlock()
	defer func() {
		x.mu.Lock()
		h.done = true
		if h.b != nil {
			h.b.finished++
		}
		if h.conn >= 0 {
			x.running[h.conn]--
		} else {
			x.untagged--
		}
		x.mu.Unlock()
	}()
	polite := func() {
		select {
		case <-h.gate:
		case <-ctx.Done():
		}
	}
	parts := strings.Split(beh, ":")
	switch parts[0] {
	case "stubborn":
		<-h.gate
		return nil
	case "echo":
		for {
			var m []byte
			if err := ss.RecvMsg(&m); err != nil {
				if err == io.EOF {
					return nil
				}
				return err
			}
			if err := ss.SendMsg(m); err != nil {
				return err
			}
		}
	case "send":
		k, sz := atoi(parts, 1, 1), atoi(parts, 2, 10)
		for j := 0; j < k; j++ {
			if err := ss.SendMsg(make([]byte, sz)); err != nil {
				return err
			}
		}
		return nil
	case "sendgate":
		ss.SendMsg(make([]byte, atoi(parts, 1, 10)))
		polite()
		return nil
	case "status":
		return status.Error(codes.Code(atoi(parts, 1, 2)), "scripted")
	case "recvgate":
		var m []byte
		ss.RecvMsg(&m)
		polite()
		return nil
	case "header":
		ss.SendHeader(metadata.Pairs("x-h", "v"))
		polite()
		return nil
	default:
		polite()
		return nil
	}
}

func atoi(parts []string, k, def int) int {
	if k >= len(parts) {
		return def
	}
	n := 0
	for _, c := range parts[k] {
		if c < '0' || c > '9' {
			return def
		}
		n = n*10 + int(c-'0')
	}
	return n
}

// ---------------------------------------------------------------- client side

func (x *execState) feed() {
	for _, c := range x.all {
		if c.peer == nil || !c.reader {
			continue
		}
		log := c.peer.LogFrom(c.fed)
		for k := range log {
			e := &log[k]
			if e.Dir != wire.In {
				continue
			}
			switch e.Type {
			case http2.FrameHeaders:
				x.count("server_headers_frames", 1)
				if st, ok := e.Field(":status"); ok && st != "200" {
					x.count("server_http_status_"+st, 1)
				}
				if gs, ok := e.Field("grpc-status"); ok {
					x.count("server_grpc_status_"+gs, 1)
				}
				if s := c.streams[e.Stream]; s != nil && e.EndStream() {
					s.closed = true
				}
			case http2.FrameRSTStream:
				x.count("server_rst_"+e.Code.String(), 1)
				if s := c.streams[e.Stream]; s != nil {
					s.closed = true
				}
				if e.Code == http2.ErrCodeRefusedStream {
					c.refusedID[e.Stream] = true
				}
			case http2.FrameGoAway:
				x.count("server_goaway_"+e.Code.String(), 1)
				c.goaway = true
			case wire.TypeConnEnd:
				if c.alive {
					c.alive = false
					x.count("conn_ended_by_server", 1)
					x.tr("conn%d ended by the server: %s", c.idx, e.Err)
				}
			}
		}
		c.fed += len(log)
	}
}

func (x *execState) quiesce() {
	synctest.Wait()
	x.feed()
	x.count("quiescent_checks", 1)
	// Streams that were accepted (their request reached a handler) and are still
	// open on the wire - no END_STREAM / RST_STREAM from the server read, none
	// sent by the script - are "active streams on the connection", whether or
	// not the handler is still running.
	for _, c := range x.all {
		if !c.alive || c.tainted || !c.hsOK || c.overLimit {
			continue
		}
		if n := x.openAccepted(c); n > x.sc.MaxStreams {
			c.overLimit = true // report once per connection
			x.v("open-streams-exceed-max-concurrent-streams", "connection %d has %d streams that were accepted (handler invoked) and are still open on the wire (no END_STREAM / RST_STREAM in either direction), MaxConcurrentStreams is %d; open ids: %v", c.idx, n, x.sc.MaxStreams, x.openIDs(c))
		} else if n == x.sc.MaxStreams {
			x.count("quiescent_points_with_open_streams_at_limit", 1)
		}
	}
}

// openAccepted counts the accepted streams of c that are open on the wire.
func (x *execState) openAccepted(c *cconn) int { return len(x.openIDs(c)) }

func (x *execState) openIDs(c *cconn) []uint32 {
	x.mu.Lock()
	defer x.mu.Unlock()
	var ids []uint32
	for _, id := range c.order {
		if s := c.streams[id]; !s.closed && s.blk != nil && s.blk.runs > 0 {
			ids = append(ids, id)
		}
	}
	return ids
}

func (x *execState) connect() {
	idx := len(x.all)
	hs := "ok"
	if idx < len(x.sc.Handshakes) {
		hs = x.sc.Handshakes[idx]
	}
	raw, err := x.fx.L.Dial()
	if err != nil {
		x.count("dial_errors", 1)
		return
	}
	c := &cconn{idx: idx, raw: raw, streams: map[uint32]*cstream{}, enc: newHenc(), idCount: map[uint32]int{}, refusedID: map[uint32]bool{}, alive: true}
	p := wire.NewPeer(raw, false)
	p.AutoSettingsAck, p.AutoPingAck = x.sc.AckSet, x.sc.AckPing
	c.peer = p
	x.all = append(x.all, c)
	x.cur = c
	x.count("conns_opened", 1)
	x.count("handshake_"+hs, 1)
	x.tr("conn%d opened, handshake %s", idx, hs)
	start := func(err error) {
		c.reader = err == nil
		if err != nil {
			c.alive = false
		}
	}
	switch hs {
	case "ok":
		start(p.Start())
		c.hsOK = c.reader
	case "hostile-settings":
		start(p.Start(x.randSettings(1 + x.rng.Intn(5))...))
		c.tainted = true // e.g. MAX_FRAME_SIZE / window games: probes are off
	case "iws-zero":
		start(p.Start(http2.Setting{ID: http2.SettingInitialWindowSize, Val: uint32(x.rng.Intn(20))}))
		c.hsOK = c.reader
	case "bad-preface":
		b := []byte(http2.ClientPreface)
		switch x.rng.Intn(3) {
		case 0:
			b[x.rng.Intn(len(b))] ^= byte(1 + x.rng.Intn(255))
		case 1:
			b = randBytes(x.rng, 1+x.rng.Intn(40))
		default:
			b = []byte("GET / HTTP/1.1\r\nHost: x\r\n\r\n")
		}
		raw.Write(b)
		c.tainted = true
	case "no-settings":
		start(p.StartNoSettings())
		c.tainted = true
	case "silent":
		start(p.StartNoSettings())
		c.tainted = true
	case "close":
		raw.Close()
		c.alive = false
	case "partial-preface-then-close":
		raw.Write([]byte(http2.ClientPreface)[:1+x.rng.Intn(len(http2.ClientPreface)-1)])
		raw.Close()
		c.alive = false
	case "settings-ack-first":
		start(p.StartNoSettings())
		p.WriteSettingsAck()
		p.WriteSettings()
		c.tainted = true
	}
	if hs != "ok" {
		x.mu.Lock()
		x.sigs["HANDSHAKE/-/"+hs] = true
		x.mu.Unlock()
	}
}

func (x *execState) randSettings(n int) []http2.Setting {
	var ss []http2.Setting
	for k := 0; k < n; k++ {
		ss = append(ss, x.oneSetting())
	}
	return ss
}

func (x *execState) oneSetting() http2.Setting {
	rng := x.rng
	switch rng.Intn(16) {
	case 0:
		return http2.Setting{ID: http2.SettingInitialWindowSize, Val: 0}
	case 1:
		return http2.Setting{ID: http2.SettingInitialWindowSize, Val: 1<<31 - 1}
	case 2:
		return http2.Setting{ID: http2.SettingInitialWindowSize, Val: 1 << 31}
	case 3:
		return http2.Setting{ID: http2.SettingMaxFrameSize, Val: uint32(rng.Intn(16384))}
	case 4:
		return http2.Setting{ID: http2.SettingMaxFrameSize, Val: 1 << 24}
	case 5:
		return http2.Setting{ID: http2.SettingMaxFrameSize, Val: uint32(16384 + rng.Intn(100000))}
	case 6:
		return http2.Setting{ID: http2.SettingEnablePush, Val: uint32(rng.Intn(4))}
	case 7:
		return http2.Setting{ID: http2.SettingHeaderTableSize, Val: vlib.Pick(rng, uint32(0), 1, 4096, 1<<20, 1<<32-1)}
	case 8:
		return http2.Setting{ID: http2.SettingMaxConcurrentStreams, Val: vlib.Pick(rng, uint32(0), 1, 2, 100, 1<<32-1)}
	case 9:
		return http2.Setting{ID: http2.SettingMaxHeaderListSize, Val: vlib.Pick(rng, uint32(0), 1, 50, 8192, 1<<32-1)}
	case 10:
		return http2.Setting{ID: 0, Val: rng.Uint32()}
	case 11:
		return http2.Setting{ID: http2.SettingID(7 + rng.Intn(0xfff8)), Val: rng.Uint32()}
	case 12:
		return http2.Setting{ID: http2.SettingInitialWindowSize, Val: uint32(rng.Intn(200000))}
	default:
		return http2.Setting{ID: http2.SettingID(1 + rng.Intn(6)), Val: rng.Uint32()}
	}
}

func (x *execState) pickStream(c *cconn, class string) (uint32, string) {
	var open, half, closed, returned []uint32
	x.mu.Lock()
	for _, id := range c.order {
		if s := c.streams[id]; !s.closed && s.blk != nil && s.blk.finished > 0 {
			returned = append(returned, id)
		}
	}
	x.mu.Unlock()
	for _, id := range c.order {
		s := c.streams[id]
		switch {
		case s.closed:
			closed = append(closed, id)
		case s.endSent:
			half = append(half, id)
		default:
			open = append(open, id)
		}
	}
	switch class {
	case "open":
		if len(open) > 0 {
			return open[x.rng.Intn(len(open))], "open"
		}
		if len(half) > 0 {
			return half[x.rng.Intn(len(half))], "half-closed"
		}
	case "half-closed":
		if len(half) > 0 {
			return half[x.rng.Intn(len(half))], "half-closed"
		}
	case "handler-returned":
		// the handler is gone, the stream may still be known to the transport
		// (trailers queued behind flow-controlled data)
		if len(returned) > 0 {
			return returned[x.rng.Intn(len(returned))], "handler-returned"
		}
		if len(open) > 0 {
			return open[x.rng.Intn(len(open))], "open"
		}
	case "closed":
		if len(closed) > 0 {
			return closed[x.rng.Intn(len(closed))], "closed"
		}
	case "even":
		return uint32(2 * (1 + x.rng.Intn(50))), "even"
	case "zero":
		return 0, "zero"
	case "huge":
		return 1<<31 - 1, "huge"
	}
	return (c.maxAny + 1 + uint32(2*(1+x.rng.Intn(4)))) | 1, "idle"
}

func (x *execState) streamClass() string {
	return vlib.Pick(x.rng, "open", "open", "open", "open", "half-closed", "handler-returned", "handler-returned", "closed", "idle", "even", "zero", "huge")
}

func (x *execState) freshID(c *cconn) uint32 {
	if c.maxAny == 0 {
		return 1
	}
	return c.maxAny + 2
}

// Handlers that ignore the cancellation of their stream ("stubborn") are used
// by storm() only, which unwinds them before it returns: while such handlers
// hold every handler slot the server's reader goroutine waits for a slot inside
// operateHeaders with http2Server.maxStreamMu held; a GOAWAY queued meanwhile
// (ping strikes, illegal stream id) would park the loopy writer on that
// sync.Mutex, which is not a durable block for synctest - the bubble's clock
// and synctest.Wait would stop for good (harness limitation, not judged).
var behaviours = []string{"gate", "gate", "gate", "gate", "echo", "send:1:10", "send:3:30000", "send:1:100000", "sendgate:10", "status:7", "status:0", "recvgate", "header"}

// baseFields is a fully legal gRPC request header block.
func (x *execState) baseFields(tag, beh string) []hf {
	return []hf{f(":method", "POST"), f(":scheme", "http"), f(":path", "/verif.C12/Call"), f(":authority", "verif.test"),
		f("content-type", "application/grpc"), f("te", "trailers"), f("user-agent", "verif-c12/1"), f("x-tag", tag), f("x-beh", beh)}
}

func replaceField(fs []hf, name string, vals ...string) []hf {
	var out []hf
	done := false
	for _, x := range fs {
		if x.Name != name {
			out = append(out, x)
			continue
		}
		if !done {
			for _, v := range vals {
				out = append(out, f(name, v))
			}
			done = true
		}
	}
	if !done {
		for _, v := range vals {
			out = append(out, f(name, v))
		}
	}
	return out
}

func insertAfterPseudo(fs []hf, extra ...hf) []hf {
	k := 0
	for k < len(fs) && strings.HasPrefix(fs[k].Name, ":") {
		k++
	}
	out := append([]hf{}, fs[:k]...)
	out = append(out, extra...)
	return append(out, fs[k:]...)
}

// legalVariant decorates the base block with legal extras.
func (x *execState) legalVariant(fs []hf) ([]hf, string) {
	rng := x.rng
	switch rng.Intn(12) {
	case 0:
		return append(fs, f("grpc-timeout", vlib.Pick(rng, "5S", "100m", "1H", "99999999S", "30M", "7000000u", "99999999n"))), "legal+timeout"
	case 1:
		return replaceField(fs, "content-type", vlib.Pick(rng, "application/grpc+proto", "application/grpc;charset=utf-8", "application/grpc+", "application/grpc+json")), "legal+content-subtype"
	case 2:
		return append(fs, f("x-data-bin", vlib.Pick(rng, "YWJj", "YQ", "YQ==", "AAAA", ""))), "legal+bin"
	case 3:
		return append(replaceField(fs, ":authority"), f("host", "verif.host")), "legal+host-only"
	case 4:
		return append(fs, f("host", "verif.host")), "legal+authority-and-host"
	case 5:
		return append(fs, f("grpc-encoding", "identity"), f("grpc-accept-encoding", "identity,gzip")), "legal+encoding-identity"
	case 6:
		return append(fs, f("x-user", "a"), f("x-user", "b"), f("x-other", strings.Repeat("v", rng.Intn(300)))), "legal+metadata"
	case 7:
		return append(fs, f("grpc-timeout", vlib.Pick(rng, "1n", "0S", "1u", "0n", "1m"))), "legal+tiny-timeout"
	default:
		return fs, "legal-basic"
	}
}

// illegalVariant applies one clearly illegal mutation (by the statement).
func (x *execState) illegalVariant(fs []hf) ([]hf, string) {
	rng := x.rng
	switch rng.Intn(8) {
	case 0:
		if rng.Intn(4) == 0 {
			return replaceField(fs, ":method"), "method-missing"
		}
		return replaceField(fs, ":method", vlib.Pick(rng, "GET", "PUT", "post", "", "POST ", "CONNECT", "HEAD", "POSTX")), "method-not-post"
	case 1:
		if rng.Intn(4) == 0 {
			return replaceField(fs, "content-type"), "content-type-missing"
		}
		return replaceField(fs, "content-type", vlib.Pick(rng, "text/plain", "application/json", "application/grpcweb", "application/grp", "", "application/grpc-web", "application/grpc/proto", "application/x-protobuf")), "content-type-invalid"
	case 2:
		return append(fs, f("grpc-timeout", vlib.Pick(rng, "", "S", "1", "1x", "abc", "123456789S", "-1S", "1 S", "1.5S", "1SS", "12", "+5S", "1s", "0x1S"))), "grpc-timeout-malformed"
	case 3:
		return fs, "dup" // duplicate :authority, built by the caller (pseudo headers must stay first)
	case 4:
		return append(fs, f("host", "a.test"), f("host", "b.test")), "duplicate-host"
	case 5:
		return append(fs, f("x-data-bin", vlib.Pick(rng, "!!!!", "a", "ab!d", "YQ=", "\"\"\"\"", "YWJjZ", "====", "Y W J j"))), "binary-metadata-undecodable"
	case 6:
		return append(fs, f("connection", vlib.Pick(rng, "keep-alive", "close", "upgrade", ""))), "connection-header"
	default:
		return fs, "id" // illegal through the stream id only (chosen by the caller)
	}
}

// unknownVariant builds blocks the validator does not judge.
func (x *execState) unknownVariant(fs []hf) ([]hf, string) {
	rng := x.rng
	switch rng.Intn(22) {
	case 0:
		return append(fs, f("X-Upper", "v")), "uppercase-name"
	case 1:
		return append(fs, f(":path", "/late")), "pseudo-after-regular"
	case 2:
		return insertAfterPseudo(fs[:4], append([]hf{f(":bogus", "1")}, fs[4:]...)...), "unknown-pseudo"
	case 3:
		return replaceField(fs, ":path"), "path-missing"
	case 4:
		return replaceField(fs, ":path", vlib.Pick(rng, "no-slash", "", "/", "/onlyservice", "//", "/a/b/c/d", strings.Repeat("/x", 2000))), "path-odd"
	case 5:
		return replaceField(fs, "te", vlib.Pick(rng, "gzip", "", "trailers, deflate")), "te-odd"
	case 6:
		return replaceField(fs, "te"), "te-missing"
	case 7:
		return replaceField(fs, ":scheme"), "scheme-missing"
	case 8:
		return append(fs, f("x-big", strings.Repeat("a", vlib.Pick(rng, 3000, 20000, 70000)))), "oversized-value"
	case 9:
		for k := 0; k < 200+rng.Intn(1500); k++ {
			fs = append(fs, f(fmt.Sprintf("x-h%d", k), "v"))
		}
		return fs, "many-fields"
	case 10:
		return replaceField(fs, "content-type", "Application/GRPC"), "content-type-uppercase"
	case 11:
		return replaceField(fs, ":method", "POST", "GET"), "method-mixed-duplicates"
	case 12:
		return replaceField(fs, "content-type", "text/plain", "application/grpc"), "content-type-mixed-duplicates"
	case 13:
		return append(fs, f("grpc-timeout", "1x"), f("grpc-timeout", "5S")), "timeout-mixed-duplicates"
	case 14:
		return insertAfterPseudo(fs[:4], append([]hf{f(":status", "200")}, fs[4:]...)...), "status-pseudo-in-request"
	case 15:
		return append(fs, f("x-ctl", "a\x00b\r\nc")), "invalid-value-bytes"
	case 16:
		return append(fs, f("grpc-encoding", vlib.Pick(rng, "snappy-unknown", "gzip", ""))), "grpc-encoding-odd"
	case 17:
		return append(fs, f("x bad name", "v")), "invalid-name"
	case 18:
		return append(fs, f("grpc-foo-bin", "!!!"), f("grpc-trace-bin", "!!!")), "reserved-bin-garbage"
	case 19:
		return append(fs, f("x-list-bin", "YQ==,Yg==")), "bin-comma-joined"
	case 20:
		return append(fs, f("transfer-encoding", "chunked"), f("upgrade", "h2c"), f("keep-alive", "1")), "hop-by-hop-other"
	default:
		return append(fs, f("content-length", vlib.Pick(rng, "5", "-1", "abc"))), "content-length"
	}
}

// sendBlock classifies and sends one request header block.
func (x *execState) sendBlock(c *cconn, id uint32, fields []hf, beh, desc string, endStream bool, frag int, probe bool, tag string) *block {
	reasons, clean := classify(fields, id, c.maxClean, x.sc.MaxHdrList)
	b := &block{tag: tag, conn: c.idx, id: id, beh: beh, desc: desc, probe: probe, reasons: reasons, sentLive: c.alive}
	switch {
	case c.tainted:
		b.class = "unknown" // frame alignment / settings games: nothing on this connection is judged
	case len(reasons) > 0:
		b.class = "illegal"
	case clean:
		b.class = "legal"
	default:
		b.class = "unknown"
	}
	x.mu.Lock()
	x.blocks[tag] = b
	x.res.Counters["blocks_"+b.class]++
	for _, r := range reasons {
		if b.class == "illegal" && c.alive {
			x.res.Counters["illegal_sent_"+r]++
		}
	}
	x.mu.Unlock()
	blk := c.enc.block(fields...)
	if frag <= 0 {
		frag = 16384
	}
	first := true
	for first || len(blk) > 0 {
		n := min(frag, len(blk))
		chunk := blk[:n]
		blk = blk[n:]
		var fl http2.Flags
		if len(blk) == 0 {
			fl |= http2.FlagHeadersEndHeaders
		}
		if first {
			if endStream {
				fl |= http2.FlagHeadersEndStream
			}
			c.peer.WriteRawFrame(http2.FrameHeaders, fl, id, chunk)
			first = false
		} else {
			c.peer.WriteRawFrame(http2.FrameContinuation, fl, id, chunk)
		}
	}
	c.idCount[id]++
	if id > c.maxAny && id < 1<<31-1 {
		c.maxAny = id
	}
	if clean && id%2 == 1 && id > c.maxClean && id < 1<<31-1 && !c.tainted {
		c.maxClean = id
	}
	if _, ok := c.streams[id]; !ok && id != 0 {
		c.streams[id] = &cstream{id: id, endSent: endStream, blk: b}
		c.order = append(c.order, id)
	}
	return b
}

func (x *execState) liveHandlers(c *cconn) (live, running int) {
	x.mu.Lock()
	defer x.mu.Unlock()
	for _, h := range x.handlers {
		if h.done || h.conn != c.idx {
			continue
		}
		running++
		if h.ctx.Err() == nil {
			live++
		}
	}
	return live, running + x.untagged
}

// probe: fill the connection up to MaxConcurrentStreams accepted streams that
// are open on the wire (their handlers running on live streams or - when the
// client withholds flow-control window - already returned with the response
// still queued), then a further legal stream must be refused.
func (x *execState) probe(c *cconn) {
	x.quiesce()
	if !c.alive || c.tainted || c.goaway || !c.hsOK {
		x.count("probe_skipped_connection_state", 1)
		return
	}
	n := x.sc.MaxStreams
	live, running := x.liveHandlers(c)
	if running > live {
		x.count("probe_skipped_lingering_handlers", 1)
		return
	}
	filler := "gate"
	if x.sc.Fam == "window" {
		filler = fmt.Sprintf("send:1:%d", 100+x.rng.Intn(3000))
	}
	for k := x.openAccepted(c); k < n; k++ {
		tag := x.newTag("t")
		x.sendBlock(c, x.freshID(c), x.baseFields(tag, filler), filler, "probe-filler legal-basic", false, 0, false, tag)
	}
	x.quiesce()
	live, running = x.liveHandlers(c)
	open := x.openAccepted(c)
	if !c.alive || c.goaway || open != n || running != live {
		x.count("probe_skipped_not_full", 1)
		x.tr("probe skipped: alive=%v goaway=%v open=%d live=%d running=%d limit=%d", c.alive, c.goaway, open, live, running, n)
		return
	}
	if live < n {
		x.count("probes_with_returned_handlers", 1)
	}
	live = open
	tag := x.newTag("t")
	id := x.freshID(c)
	mark := c.peer.Len()
	b := x.sendBlock(c, id, x.baseFields(tag, "gate"), "gate", "refusal probe legal-basic", false, 0, true, tag)
	x.sig(c, "HEADERS", "idle", "refusal-probe-at-limit")
	x.quiesce()
	if !c.alive {
		x.count("probe_inconclusive_connection_died", 1)
		return
	}
	x.count("probes_completed", 1)
	refused := false
	var got []string
	for _, e := range c.peer.LogFrom(mark) {
		if e.Dir == wire.In && e.Stream == id {
			got = append(got, e.String())
			if e.Type == http2.FrameRSTStream && e.Code == http2.ErrCodeRefusedStream {
				refused = true
			}
		}
	}
	x.mu.Lock()
	runs := b.runs
	x.mu.Unlock()
	if !refused {
		x.v("stream-not-refused-at-limit", "connection %d has %d accepted streams open on the wire (MaxConcurrentStreams=%d); a further legal stream %d was not answered with RST_STREAM(REFUSED_STREAM) at the next quiescent point; frames for it: %v; handler runs: %d", c.idx, live, n, id, got, runs)
	} else {
		x.count("probes_refused", 1)
		x.mu.Lock()
		x.sigs["PROBE/limit="+fmt.Sprint(n)+"/refused"] = true
		x.mu.Unlock()
	}
	if runs > 0 {
		x.v("handler-ran-beyond-limit", "connection %d: the stream opened beyond MaxConcurrentStreams=%d reached a handler", c.idx, n)
	}
}

// windowFill: with the client's flow-control window (nearly) closed, open
// streams whose handlers send a response that fits the write quota and return;
// the streams stay open on the wire.  More than MaxConcurrentStreams of them are
// requested; then the refusal probe is taken.
func (x *execState) windowFill(c *cconn) {
	x.quiesce()
	if !c.alive || c.tainted || c.goaway || !c.hsOK {
		x.count("windowfill_skipped_connection_state", 1)
		return
	}
	m := 1 + x.rng.Intn(x.sc.MaxStreams+3)
	wait := x.rng.Intn(2) == 0
	for j := 0; j < m; j++ {
		tag := x.newTag("t")
		beh := fmt.Sprintf("send:1:%d", 100+x.rng.Intn(5000))
		x.sendBlock(c, x.freshID(c), x.baseFields(tag, beh), beh, "window-fill legal-basic", x.rng.Intn(2) == 0, 0, false, tag)
		if wait {
			x.quiesce()
		}
	}
	x.count("windowfill_streams", int64(m))
	x.sig(c, "WINDOW-FILL", "idle", fmt.Sprintf("limit=%d/requested=%s", x.sc.MaxStreams, map[bool]string{true: "beyond-limit", false: "within-limit"}[m > x.sc.MaxStreams]))
	x.quiesce()
	if x.rng.Intn(3) == 0 {
		// let some responses through: those streams end
		for _, id := range x.openIDs(c) {
			if x.rng.Intn(2) == 0 {
				c.peer.WriteWindowUpdate(id, 1<<20)
			}
		}
		x.quiesce()
	}
	x.probe(c)
}

// storm: open-and-reset streams as fast as possible while their handlers linger.
func (x *execState) storm(c *cconn) {
	x.quiesce() // start from a quiescent point: nothing that could queue a GOAWAY is pending
	if !c.alive || c.tainted || c.goaway || !c.hsOK {
		x.count("storm_skipped_connection_state", 1)
		return
	}
	k := 5 + x.rng.Intn(40)
	beh := vlib.Pick(x.rng, "stubborn", "stubborn", "stubborn", "gate", "sendgate:10")
	waitEach := x.rng.Intn(4) == 0
	for j := 0; j < k; j++ {
		tag := x.newTag("t")
		id := x.freshID(c)
		x.sendBlock(c, id, x.baseFields(tag, beh), beh, "storm legal-basic", x.rng.Intn(3) == 0, 0, false, tag)
		c.peer.WriteRST(id, vlib.Pick(x.rng, http2.ErrCodeCancel, http2.ErrCodeNo, http2.ErrCodeInternal))
		c.streams[id].closed = true
		if waitEach {
			x.quiesce()
		}
	}
	x.count("storm_streams", int64(k))
	x.sig(c, "STORM", "idle", fmt.Sprintf("open+rst x%d/%s/wait=%v", bucket(k), beh, waitEach))
	// lingering handlers now hold every slot; the limit is checked at each
	// handler entry.  Unwind before anything else is sent (see behaviours).
	x.quiesce()
	_, running := x.liveHandlers(c)
	if running == x.sc.MaxStreams {
		x.count("storms_with_every_handler_slot_held_by_lingering_handlers", 1)
		x.mu.Lock()
		x.sigs[fmt.Sprintf("STORM/limit=%d/all-slots-lingering", x.sc.MaxStreams)] = true
		x.mu.Unlock()
	}
	x.drain(true)
	x.drain(false)
}

func bucket(n int) int {
	switch {
	case n < 10:
		return 5
	case n < 25:
		return 10
	default:
		return 25
	}
}

// drain releases every handler, including those that are only admitted once a
// lingering one has returned (the server's reader goroutine waits for a handler
// slot while MaxConcurrentStreams handlers run; Server.Stop would wait with it).
func (x *execState) drain(on bool) {
	x.mu.Lock()
	x.draining = on
	x.mu.Unlock()
	if on {
		x.releaseSome(true)
		x.quiesce()
	}
}

func (x *execState) releaseSome(all bool) {
	x.mu.Lock()
	var hs []*hstate
	for _, h := range x.handlers {
		if !h.done {
			hs = append(hs, h)
		}
	}
	x.mu.Unlock()
	if len(hs) == 0 {
		return
	}
	if all {
		for _, h := range hs {
			h.release()
		}
		x.tr("release all %d handlers", len(hs))
		return
	}
	n := 1 + x.rng.Intn(len(hs))
	for k := 0; k < n; k++ {
		hs[x.rng.Intn(len(hs))].release()
	}
	x.tr("release up to %d handlers", n)
}

func (x *execState) validBytes(c *cconn) []byte {
	var b []byte
	n := 1 + x.rng.Intn(4)
	for k := 0; k < n; k++ {
		id, _ := x.pickStream(c, "open")
		switch x.rng.Intn(8) {
		case 0, 1:
			tag := x.newTag("m") // "m" tags are never registered: handlers reached through mutated bytes are not judged
			nid := x.freshID(c)
			c.maxAny = nid
			b = append(b, frameBytes(http2.FrameHeaders, http2.FlagHeadersEndHeaders, nid, c.enc.block(x.baseFields(tag, "gate")...))...)
		case 2:
			b = append(b, frameBytes(http2.FrameData, http2.Flags(x.rng.Intn(2)), id, wire.Msg(randBytes(x.rng, x.rng.Intn(50))))...)
		case 3:
			b = append(b, frameBytes(http2.FrameSettings, 0, 0, settingsPayload(http2.Setting{ID: http2.SettingInitialWindowSize, Val: 70000}))...)
		case 4:
			b = append(b, frameBytes(http2.FramePing, 0, 0, randBytes(x.rng, 8))...)
		case 5:
			b = append(b, frameBytes(http2.FrameWindowUpdate, 0, vlib.Pick(x.rng, 0, id), u32(1000))...)
		case 6:
			b = append(b, frameBytes(http2.FrameRSTStream, 0, id, u32(uint32(x.rng.Intn(14))))...)
		default:
			b = append(b, frameBytes(http2.FrameGoAway, 0, 0, append(append(u32(id), u32(0)...), []byte("dbg")...))...)
		}
	}
	return b
}

func (x *execState) hostileOp() {
	c := x.cur
	rng := x.rng
	p := c.peer
	kind := ""
	switch {
	case x.sc.Fam == "bytes":
		kind = vlib.Pick(rng, "BYTES", "BYTES", "BYTES", "HEADERS-LEGAL", "HEADERS-LEGAL", "DATA", "RELEASE", "SETTINGS")
	case x.sc.Focus != "" && rng.Intn(3) != 0:
		kind = x.sc.Focus
	default:
		kind = vlib.Pick(rng, "HEADERS-LEGAL", "HEADERS-LEGAL", "HEADERS-LEGAL", "HEADERS-LEGAL", "HEADERS-ILLEGAL", "HEADERS-ILLEGAL", "HEADERS-ILLEGAL", "HEADERS-ILLEGAL", "HEADERS-ILLEGAL", "HEADERS-ILLEGAL", "HEADERS-UNKNOWN", "HEADERS-UNKNOWN",
			"DATA", "DATA", "DATA", "RST_STREAM", "RST_STREAM", "SETTINGS", "PING", "WINDOW_UPDATE", "PROBE", "STORM", "WINDOW-FILL", "RELEASE", "RELEASE", "RELEASE-ALL",
			"HEADERS-NOEND", "CONTINUATION", "GOAWAY", "PUSH_PROMISE", "PRIORITY", "UNKNOWN", "OVERSIZE", "BYTES", "CONN", "SLEEP")
	}
	switch kind {
	case "HEADERS-LEGAL":
		tag := x.newTag("t")
		beh := vlib.Pick(rng, behaviours...)
		fs, cls := x.legalVariant(x.baseFields(tag, beh))
		es := rng.Intn(4) == 0
		frag := 0
		if rng.Intn(6) == 0 {
			frag = 1 + rng.Intn(30)
			cls += "/continuations"
		}
		b := x.sendBlock(c, x.freshID(c), fs, beh, cls+" beh="+beh, es, frag, false, tag)
		x.sig(c, "HEADERS", "idle", cls+"/"+b.class)
	case "HEADERS-ILLEGAL":
		tag := x.newTag("t")
		beh := vlib.Pick(rng, "gate", "gate", "status:0", "send:1:10")
		fs, cls := x.illegalVariant(x.baseFields(tag, beh))
		id := x.freshID(c)
		sclass := "idle"
		switch cls {
		case "dup":
			fs = x.baseFields(tag, beh)
			fs = append(append(append([]hf{}, fs[:4]...), f(":authority", "second.test")), fs[4:]...)
			cls = "duplicate-authority"
		case "id":
			switch rng.Intn(6) {
			case 0:
				id, sclass = x.pickStream(c, "even")
				cls = "stream-id-even"
			case 1:
				id, sclass, cls = 0, "zero", "stream-id-zero"
			case 2:
				if oid, ocl := x.pickStream(c, "open"); ocl != "idle" {
					id, sclass, cls = oid, ocl, "stream-id-reused-open"
				} else {
					id, sclass = x.pickStream(c, "even")
					cls = "stream-id-even"
				}
			case 3:
				if oid, ocl := x.pickStream(c, "closed"); ocl != "idle" {
					id, sclass, cls = oid, ocl, "stream-id-reused-closed"
				} else {
					id, sclass, cls = 0, "zero", "stream-id-zero"
				}
			default:
				if c.maxClean >= 3 {
					id, sclass, cls = c.maxClean-2*uint32(rng.Intn(int(c.maxClean/2))+0), "lower", "stream-id-decreasing"
					if id < 1 {
						id = 1
					}
				} else {
					id, sclass = x.pickStream(c, "even")
					cls = "stream-id-even"
				}
			}
		}
		es := rng.Intn(4) == 0
		b := x.sendBlock(c, id, fs, beh, cls, es, 0, false, tag)
		x.sig(c, "HEADERS", sclass, cls+"/"+b.class)
	case "HEADERS-UNKNOWN":
		tag := x.newTag("t")
		beh := vlib.Pick(rng, "gate", "status:0", "echo")
		fs, cls := x.unknownVariant(x.baseFields(tag, beh))
		if rng.Intn(10) == 0 {
			// raw garbage instead of an HPACK block
			id := x.freshID(c)
			p.WriteRawFrame(http2.FrameHeaders, http2.FlagHeadersEndHeaders, id, randBytes(rng, 1+rng.Intn(60)))
			c.maxAny = id
			c.tainted = true // the decoder's dynamic table may hold anything now (our blocks do not use it, but stay safe)
			x.sig(c, "HEADERS", "idle", "hpack-garbage")
			return
		}
		if rng.Intn(12) == 0 {
			id := x.freshID(c)
			blk := c.enc.block(fs...)
			pl := append([]byte{byte(rng.Intn(256))}, append(u32(rng.Uint32()), byte(rng.Intn(256)))...)
			p.WriteRawFrame(http2.FrameHeaders, http2.FlagHeadersEndHeaders|http2.FlagHeadersPadded|http2.FlagHeadersPriority, id, append(pl, blk...))
			c.maxAny = id
			x.sig(c, "HEADERS", "idle", "padded+priority-flags(untracked tag)")
			return
		}
		b := x.sendBlock(c, x.freshID(c), fs, beh, cls, rng.Intn(4) == 0, 0, false, tag)
		x.sig(c, "HEADERS", "idle", cls+"/"+b.class)
	case "WINDOW-FILL":
		x.windowFill(c)
	case "PROBE":
		x.probe(c)
	case "STORM":
		x.storm(c)
	case "RELEASE":
		x.releaseSome(false)
	case "RELEASE-ALL":
		x.releaseSome(true)
	case "SLEEP":
		d := time.Duration(1+rng.Intn(6000)) * time.Millisecond
		x.tr("sleep %v", d)
		time.Sleep(d)
	case "DATA":
		id, cl := x.pickStream(c, x.streamClass())
		end := rng.Intn(3) == 0
		switch rng.Intn(12) {
		case 0, 1:
			p.WriteData(id, wire.Msg(randBytes(rng, rng.Intn(300))), end, -1)
			x.sig(c, "DATA", cl, fmt.Sprintf("msg-valid/end=%v", end))
		case 2:
			m := wire.Msg(randBytes(rng, 10+rng.Intn(100)))
			p.WriteData(id, m[:rng.Intn(len(m))], end, -1)
			x.sig(c, "DATA", cl, fmt.Sprintf("msg-partial/end=%v", end))
		case 3:
			p.WriteData(id, []byte{0, 0xff, 0xff, 0xff, 0xff, 1, 2, 3}, end, -1)
			x.sig(c, "DATA", cl, fmt.Sprintf("msg-length-4G/end=%v", end))
		case 4:
			m := wire.Msg(randBytes(rng, 20))
			m[0] = byte(1 + rng.Intn(255))
			p.WriteData(id, m, end, -1)
			x.sig(c, "DATA", cl, fmt.Sprintf("msg-compressed-flag/end=%v", end))
		case 5:
			p.WriteData(id, nil, end, -1)
			x.sig(c, "DATA", cl, fmt.Sprintf("empty/end=%v", end))
		case 6:
			n := 5 + rng.Intn(4)
			for k := 0; k < n; k++ {
				p.WriteData(id, make([]byte, 16384), false, -1)
			}
			x.sig(c, "DATA", cl, "beyond-stream-and-connection-window")
		case 7:
			p.WriteData(id, wire.Msg(randBytes(rng, rng.Intn(100))), end, rng.Intn(256))
			x.sig(c, "DATA", cl, fmt.Sprintf("padded/end=%v", end))
		case 8:
			p.WriteRawFrame(http2.FrameData, http2.FlagDataPadded, id, []byte{200, 1, 2, 3})
			x.sig(c, "DATA", cl, "pad-exceeds-payload")
		case 9:
			p.WriteRawFrame(http2.FrameData, http2.FlagDataPadded, id, nil)
			x.sig(c, "DATA", cl, "padded-flag-empty-payload")
		case 10:
			// END_STREAM twice (DATA after the stream was half-closed by the client)
			p.WriteData(id, nil, true, -1)
			p.WriteData(id, nil, true, -1)
			end = true
			x.sig(c, "DATA", cl, "end-stream-twice")
		default:
			m := wire.Msg(randBytes(rng, 30))
			for k := 0; k < len(m); k += 7 {
				p.WriteData(id, m[k:min(len(m), k+7)], false, -1)
			}
			p.WriteData(id, nil, true, -1)
			end = true
			x.sig(c, "DATA", cl, "fragments-then-endstream")
		}
		if s := c.streams[id]; s != nil && end {
			s.endSent = true
		}
	case "HEADERS-NOEND":
		id := x.freshID(c)
		tag := x.newTag("m")
		blk := c.enc.block(x.baseFields(tag, "gate")...)
		p.WriteRawFrame(http2.FrameHeaders, 0, id, blk[:len(blk)/2])
		c.maxAny = id
		c.tainted = true
		switch rng.Intn(5) {
		case 0:
			p.WritePing(false, [8]byte{9})
			x.sig(c, "HEADERS", "idle", "no-END_HEADERS-then-PING")
		case 1:
			p.WriteData(id, []byte("x"), false, -1)
			x.sig(c, "HEADERS", "idle", "no-END_HEADERS-then-DATA")
		case 2:
			p.WriteRawFrame(http2.FrameContinuation, http2.FlagContinuationEndHeaders, id+2, blk[len(blk)/2:])
			x.sig(c, "HEADERS", "idle", "no-END_HEADERS-then-CONTINUATION-other-stream")
		case 3:
			p.WriteRawFrame(http2.FrameHeaders, http2.FlagHeadersEndHeaders, id+2, blk)
			x.sig(c, "HEADERS", "idle", "no-END_HEADERS-then-HEADERS")
		default:
			x.sig(c, "HEADERS", "idle", "no-END_HEADERS-then-silence")
		}
	case "CONTINUATION":
		id, cl := x.pickStream(c, x.streamClass())
		p.WriteRawFrame(http2.FrameContinuation, vlib.Pick(rng, http2.Flags(0), http2.FlagContinuationEndHeaders), id, c.enc.block(f("x-a", "b")))
		c.tainted = true
		x.sig(c, "CONTINUATION", cl, "out-of-place")
	case "RST_STREAM":
		id, cl := x.pickStream(c, x.streamClass())
		switch rng.Intn(6) {
		case 0:
			p.WriteRawFrame(http2.FrameRSTStream, 0, id, randBytes(rng, vlib.Pick(rng, 0, 1, 3, 5, 8)))
			x.sig(c, "RST_STREAM", cl, "bad-length")
		case 1:
			p.WriteRST(id, http2.ErrCode(rng.Uint32()))
			x.sig(c, "RST_STREAM", cl, "unknown-code")
		default:
			code := http2.ErrCode(rng.Intn(14))
			p.WriteRST(id, code)
			x.sig(c, "RST_STREAM", cl, "code-"+code.String())
		}
		if s := c.streams[id]; s != nil {
			s.closed = true
		}
	case "SETTINGS":
		switch rng.Intn(9) {
		case 0:
			p.WriteSettings()
			x.sig(c, "SETTINGS", "zero", "empty")
		case 1:
			p.WriteRawFrame(http2.FrameSettings, 0, 0, randBytes(rng, vlib.Pick(rng, 1, 5, 7, 11)))
			x.sig(c, "SETTINGS", "zero", "length-not-multiple-of-6")
		case 2:
			p.WriteRawFrame(http2.FrameSettings, http2.FlagSettingsAck, 0, settingsPayload(x.oneSetting()))
			x.sig(c, "SETTINGS", "zero", "ack-with-payload")
		case 3:
			id, cl := x.pickStream(c, vlib.Pick(rng, "open", "idle", "even"))
			p.WriteRawFrame(http2.FrameSettings, 0, id, settingsPayload(x.oneSetting()))
			x.sig(c, "SETTINGS", cl, "non-zero-stream")
		case 4:
			n := 10 + rng.Intn(200)
			for k := 0; k < n; k++ {
				p.WriteSettingsAck()
			}
			x.sig(c, "SETTINGS", "zero", "ack-flood")
		case 5:
			n := 10 + rng.Intn(100)
			for k := 0; k < n; k++ {
				p.WriteSettings(x.oneSetting())
			}
			x.sig(c, "SETTINGS", "zero", "settings-flood")
		default:
			s := x.oneSetting()
			p.WriteSettings(append([]http2.Setting{s}, x.randSettings(rng.Intn(3))...)...)
			cls := fmt.Sprintf("id%d", min(int(s.ID), 7))
			switch {
			case s.ID == http2.SettingInitialWindowSize && s.Val > 1<<31-1:
				cls += "-overflow"
			case s.ID == http2.SettingInitialWindowSize && s.Val == 0:
				cls += "-zero"
			case s.ID == http2.SettingMaxFrameSize && (s.Val < 16384 || s.Val > 1<<24-1):
				cls += "-illegal"
			case s.ID == http2.SettingEnablePush && s.Val > 1:
				cls += "-illegal"
			}
			x.sig(c, "SETTINGS", "zero", cls)
		}
	case "PING":
		switch rng.Intn(6) {
		case 0:
			p.WritePing(false, [8]byte{byte(rng.Intn(256))})
			x.sig(c, "PING", "zero", "valid")
		case 1:
			var d [8]byte
			rng.Read(d[:])
			p.WritePing(true, d)
			x.sig(c, "PING", "zero", "ack-unsolicited")
		case 2:
			n := 3 + rng.Intn(300)
			for k := 0; k < n; k++ {
				p.WritePing(rng.Intn(4) == 0, [8]byte{byte(k)})
			}
			x.sig(c, "PING", "zero", "flood")
		case 3:
			p.WriteRawFrame(http2.FramePing, 0, 0, randBytes(rng, vlib.Pick(rng, 0, 7, 9, 16)))
			x.sig(c, "PING", "zero", "bad-length")
		case 4:
			// the ack of the server's graceful-shutdown ping, unsolicited
			p.WritePing(true, [8]byte{1, 6, 1, 8, 0, 3, 3, 9})
			x.sig(c, "PING", "zero", "ack-goaway-ping-unsolicited")
		default:
			id, cl := x.pickStream(c, vlib.Pick(rng, "open", "idle", "even"))
			p.WriteRawFrame(http2.FramePing, 0, id, randBytes(rng, 8))
			x.sig(c, "PING", cl, "non-zero-stream")
		}
	case "GOAWAY":
		switch rng.Intn(3) {
		case 0:
			p.WriteGoAway(uint32(rng.Intn(100)), http2.ErrCode(rng.Intn(14)), vlib.Pick(rng, "", "client going away"))
			x.sig(c, "GOAWAY", "zero", "from-client")
		case 1:
			p.WriteRawFrame(http2.FrameGoAway, 0, 0, randBytes(rng, rng.Intn(8)))
			x.sig(c, "GOAWAY", "zero", "bad-length")
		default:
			id, cl := x.pickStream(c, vlib.Pick(rng, "open", "idle"))
			p.WriteRawFrame(http2.FrameGoAway, 0, id, append(u32(1), u32(0)...))
			x.sig(c, "GOAWAY", cl, "non-zero-stream")
		}
	case "WINDOW_UPDATE":
		id, cl := x.pickStream(c, vlib.Pick(rng, "zero", "zero", "open", "open", "closed", "idle", "even"))
		switch rng.Intn(6) {
		case 0:
			p.WriteWindowUpdate(id, 0)
			x.sig(c, "WINDOW_UPDATE", cl, "increment-0")
		case 1:
			p.WriteWindowUpdate(id, 1<<31-1)
			p.WriteWindowUpdate(id, 1<<31-1)
			x.sig(c, "WINDOW_UPDATE", cl, "overflow")
		case 2:
			p.WriteRawFrame(http2.FrameWindowUpdate, 0, id, randBytes(rng, vlib.Pick(rng, 0, 3, 5, 8)))
			x.sig(c, "WINDOW_UPDATE", cl, "bad-length")
		case 3:
			p.WriteRawFrame(http2.FrameWindowUpdate, 0, id, u32(0x80000000|uint32(rng.Intn(1000))))
			x.sig(c, "WINDOW_UPDATE", cl, "reserved-bit")
		default:
			p.WriteWindowUpdate(id, uint32(1+rng.Intn(100000)))
			x.sig(c, "WINDOW_UPDATE", cl, "normal")
		}
	case "PUSH_PROMISE":
		id, cl := x.pickStream(c, x.streamClass())
		switch rng.Intn(2) {
		case 0:
			pl := append(u32(uint32(2*(1+rng.Intn(100)))), c.enc.block(f(":method", "GET"), f(":path", "/pushed"), f(":scheme", "http"), f(":authority", "x"))...)
			p.WriteRawFrame(http2.FramePushPromise, http2.FlagPushPromiseEndHeaders, id, pl)
			x.sig(c, "PUSH_PROMISE", cl, "well-formed")
		default:
			p.WriteRawFrame(http2.FramePushPromise, http2.Flags(rng.Intn(256)), id, randBytes(rng, rng.Intn(40)))
			c.tainted = true
			x.sig(c, "PUSH_PROMISE", cl, "garbage")
		}
	case "PRIORITY":
		id, cl := x.pickStream(c, x.streamClass())
		switch rng.Intn(3) {
		case 0:
			p.WriteRawFrame(http2.FramePriority, 0, id, append(u32(rng.Uint32()), byte(rng.Intn(256))))
			x.sig(c, "PRIORITY", cl, "valid-length")
		case 1:
			p.WriteRawFrame(http2.FramePriority, 0, id, append(u32(id), 1))
			x.sig(c, "PRIORITY", cl, "self-dependency")
		default:
			p.WriteRawFrame(http2.FramePriority, 0, id, randBytes(rng, vlib.Pick(rng, 0, 4, 6, 20)))
			x.sig(c, "PRIORITY", cl, "bad-length")
		}
	case "UNKNOWN":
		id, cl := x.pickStream(c, x.streamClass())
		p.WriteRawFrame(http2.FrameType(10+rng.Intn(246)), http2.Flags(rng.Intn(256)), id, randBytes(rng, rng.Intn(100)))
		x.sig(c, "UNKNOWN", cl, "random")
	case "OVERSIZE":
		id, cl := x.pickStream(c, x.streamClass())
		typ := http2.FrameType(rng.Intn(10))
		c.tainted = true
		switch rng.Intn(3) {
		case 0:
			p.WriteRawFrame(typ, 0, id, make([]byte, 16385+rng.Intn(1000)))
			x.sig(c, "OVERSIZE", cl, fmt.Sprintf("16K+ type=%d", typ))
		case 1:
			b := frameBytes(typ, 0, id, randBytes(rng, 20))
			b[0], b[1], b[2] = 0xff, 0xff, 0xff
			p.WriteBytes(b)
			x.sig(c, "OVERSIZE", cl, fmt.Sprintf("declared-16M type=%d", typ))
		default:
			p.WriteRawFrame(typ, 0, id, make([]byte, 100000))
			x.sig(c, "OVERSIZE", cl, fmt.Sprintf("100K type=%d", typ))
		}
	case "BYTES":
		valid := x.validBytes(c)
		b, how := mutate(rng, valid, x.validBytes(c))
		p.WriteBytes(b)
		c.tainted = true
		x.sig(c, "BYTES", "-", how)
		x.count("mutated_bytes_written", int64(len(b)))
	case "CONN":
		switch rng.Intn(3) {
		case 0:
			p.Close()
			x.sig(c, "CONN", "-", "close")
		case 1:
			c.raw.Reset(errors.New("scripted reset"))
			x.sig(c, "CONN", "-", "reset")
		default:
			p.WriteBytes([]byte{0, 0, 8, 6})
			p.Close()
			x.sig(c, "CONN", "-", "partial-header-then-close")
		}
		c.alive = false
	}
}

// ---------------------------------------------------------------- the case

func run(sc scenario, res *caseResult) {
	x := &execState{sc: sc, rng: rand.New(rand.NewSource(sc.Seed)), res: res, t0: time.Now(), sigs: map[string]bool{},
		blocks: map[string]*block{}, running: map[int]int{}}
	res.Maxes = map[string]int64{}
	finish := func() {
		x.mu.Lock()
		defer x.mu.Unlock()
		res.Sigs = res.Sigs[:0]
		for s := range x.sigs {
			res.Sigs = append(res.Sigs, s)
		}
		sort.Strings(res.Sigs)
		if len(res.Viol) > 0 {
			res.Trace = x.trace
		}
	}
	defer finish()
	sopts := []grpc.ServerOption{grpc.MaxConcurrentStreams(uint32(sc.MaxStreams))}
	if sc.MaxHdrList > 0 {
		sopts = append(sopts, grpc.MaxHeaderListSize(uint32(sc.MaxHdrList)))
	}
	x.fx = wire.NewServerFixture(x.handler, sopts...)
	x.fx.Serve()
	x.connect()
	x.quiesce()
	for k := 0; k < sc.NOps; k++ {
		c := x.cur
		if c == nil || !c.alive || c.peer == nil || !c.reader {
			if len(x.all) >= sc.MaxConns {
				break
			}
			// one connection at a time: let lingering handlers go first
			x.drain(true)
			x.drain(false)
			x.connect()
			x.quiesce()
			continue
		}
		x.hostileOp()
		x.count("ops", 1)
		if x.rng.Intn(3) == 0 {
			continue
		}
		x.quiesce()
	}
	x.quiesce()

	// a stream answered with REFUSED_STREAM never had a handler
	x.mu.Lock()
	for _, b := range x.blocks {
		c := x.all[b.conn]
		if c.refusedID[b.id] && c.idCount[b.id] == 1 {
			x.res.Counters["streams_refused"]++
			if b.runs > 0 {
				x.vLocked("refused-stream-had-handler", "conn %d stream %d was answered with RST_STREAM(REFUSED_STREAM) but its request reached a handler (%s)", b.conn, b.id, b.desc)
			}
		}
	}
	x.mu.Unlock()

	// ---- shutdown: release every handler, stop the server
	x.drain(true)
	if sc.Graceful {
		for _, c := range x.all {
			if c.peer != nil {
				c.peer.Close()
			}
			c.raw.Close()
		}
		synctest.Wait()
		x.fx.S.GracefulStop()
	} else {
		x.fx.S.Stop()
		for _, c := range x.all {
			if c.peer != nil {
				c.peer.Close()
			}
			c.raw.Close()
		}
	}
	synctest.Wait()
	x.feed()
	x.mu.Lock()
	left := 0
	for _, h := range x.handlers {
		if !h.done {
			left++
		}
	}
	if left > 0 {
		x.vLocked("handler-still-running-after-stop", "%d handler(s) have not returned after every gate was released and the server stopped", left)
	}
	x.mu.Unlock()
	if left > 0 {
		finish()
		publishEarly(res) // handlers stuck inside grpc keep the bubble alive: the process will die
	}
	for _, c := range x.all {
		if c.reader {
			<-c.peer.Done()
		}
	}
}

// ---------------------------------------------------------------- driver glue

func light() int {
	if os.Getenv("VERIF_LIGHT") != "" {
		return 10
	}
	return 1
}

func runCase(t *testing.T, r *vlib.Run, c caseID) *caseResult {
	sc := gen(r.Rand(c.Fam, c.I), c.Fam, c.I)
	res := &caseResult{Fam: c.Fam, I: c.I, Counters: map[string]int64{}}
	res.Desc = fmt.Sprintf("focus=%s maxstreams=%d nops=%d conns=%d handshakes=%v graceful=%v", sc.Focus, sc.MaxStreams, sc.NOps, sc.MaxConns, sc.Handshakes, sc.Graceful)
	r.Progress(c.Fam, c.I, res.Desc)
	synctest.Test(t, func(t *testing.T) { run(sc, res) })
	return res
}

// TestWorkerC12 is the child-process entry point (see isolate_test.go).
func TestWorkerC12(t *testing.T) {
	if os.Getenv(envCases) == "" {
		t.Skip("child-process entry point of TestVerifC12")
	}
	r := vlib.Start(t, "C12")
	childMain(func(c caseID) *caseResult { return runCase(t, r, c) })
}

func TestVerifC12(t *testing.T) {
	r := vlib.Start(t, "C12")
	fams := []struct {
		name string
		n    int
	}{
		{"grammar", r.N(520, 5200) / light()},
		{"limit", r.N(120, 1200) / light()},
		{"window", r.N(80, 800) / light()},
		{"bytes", r.N(150, 1500) / light()},
		{"handshake", r.N(50, 500) / light()},
	}
	var cases []caseID
	for _, fm := range fams {
		for i := 0; i < fm.n; i++ {
			if r.Want(fm.name, i) {
				cases = append(cases, caseID{fm.name, i})
			}
		}
	}
	out := runIsolated(isoConfig{workerTest: "TestWorkerC12", chunk: 25, watchdog: 6 * time.Minute}, cases)
	report(r, cases, out, func(c caseID) any { return gen(r.Rand(c.Fam, c.I), c.Fam, c.I) })
	if r.Replaying() == nil {
		if r.Counter("probes_refused") == 0 {
			r.Inconclusive("no refusal probe at MaxConcurrentStreams completed")
		}
		if r.Counter("probes_with_returned_handlers") == 0 {
			r.Inconclusive("no refusal probe with returned handlers and withheld flow-control window completed")
		}
		if r.Counter("handler_for_legal_block") == 0 {
			r.Inconclusive("no legal request reached a handler: the illegal-request oracle would be vacuous")
		}
	}
	r.Finish(vlib.Spec{
		Level: "fault_enumeration",
		Rule: "a real grpc.Server with MaxConcurrentStreams in {1,2,3,10} and a catch-all handler (gate / stubborn / echo / send / status behaviours) against a scripted HTTP/2 client over up to 4 successive connections (normal or hostile prefaces); 10-59 operations per case drawn from a frame grammar: request HEADERS that are legal (8 variants), clearly illegal by the statement (even / zero / reused / decreasing stream id, :method != POST or missing, invalid or missing content-type, 14 malformed grpc-timeout values, duplicate :authority, duplicate host, undecodable -bin metadata, connection header) or unjudged (22 HTTP/2-level malformations and odd fields), DATA/RST_STREAM/SETTINGS/PING/WINDOW_UPDATE/GOAWAY/PUSH_PROMISE/PRIORITY/CONTINUATION/unknown/oversize frames on open|half-closed|closed|idle|even|zero|huge ids, header blocks without END_HEADERS, floods, open+RST storms of 5-44 streams with lingering handlers, refusal probes at exactly MaxConcurrentStreams live handlers, handler releases, virtual sleeps, close/reset; family 'bytes' adds bit-flipped/truncated/spliced/garbage bytes of valid frames; family 'window' keeps the client's flow-control window (nearly) closed, requests up to MaxConcurrentStreams+3 streams whose handlers send a response and return, and takes the refusal probe with returned handlers; at every quiescent point accepted streams still open on the wire <= MaxConcurrentStreams; " +
			"non-trivial = a (frame type, stream state, field class[/validator class]) triple sent to a live connection; distinct = number of different triples",
		Assumptions: []string{
			"every case runs in a child process; a dead child (panic, fatal error, synctest 'blocked goroutines remain') is attributed to the case whose start was logged last",
			"a handler is attributed to a header block through the checksummed x-tag field the script puts into every block; handlers reached through byte-mutated blocks carry unregistered tags and are only counted",
			"request header blocks are encoded without the HPACK dynamic table, so their meaning does not depend on what the server's decoder swallowed before",
			"a stream is 'live' while its handler runs and its context is not cancelled; the refusal probe is taken only at a quiescent point on an untainted connection that has not received GOAWAY",
			"ids reused after a block that was itself malformed at the HTTP/2 layer or oversized are not judged (grpc-go does not register such ids)",
		},
		Floor: 200 / light(),
	})
}

// report folds the children's results into the evidence and the verdict.
func report(r *vlib.Run, cases []caseID, out *isoOutcome, scenarioOf func(caseID) any) {
	samples := 0
	for _, c := range cases {
		res := out.results[c]
		if res == nil {
			continue
		}
		r.Eval(1)
		for _, v := range res.Viol {
			r.Violation(v[0], c.Fam, c.I, map[string]any{"scenario": scenarioOf(c), "trace": res.Trace}, "%s", v[1])
		}
		keys := make([]string, 0, len(res.Counters))
		for k := range res.Counters {
			keys = append(keys, k)
		}
		sort.Strings(keys)
		for _, k := range keys {
			r.Count(k, res.Counters[k])
		}
		for k, v := range res.Maxes {
			r.Max(k, v)
		}
		for _, s := range res.Sigs {
			r.Nontrivial(s)
		}
		if samples < 3 && len(res.Sigs) > 3 {
			samples++
			r.Sample(map[string]any{"family": c.Fam, "case": c.I, "desc": res.Desc, "triples": res.Sigs, "counters": res.Counters})
		}
	}
	for _, cr := range out.crashes {
		detail := map[string]any{"scenario": scenarioOf(cr.Case), "crash": cr.Excerpt, "after_result": cr.AfterResult}
		switch {
		case cr.Harness:
			r.Inconclusive("child process died in case %s/%d without a grpc frame in the failing goroutine: %s", cr.Case.Fam, cr.Case.I, cr.Summary)
		case cr.AfterResult && out.results[cr.Case] != nil && len(out.results[cr.Case].Viol) > 0:
			r.Count("crashes_after_reported_violation", 1)
		default:
			r.Violation(cr.Key, cr.Case.Fam, cr.Case.I, detail, "the test process died while running this case: %s", cr.Summary)
		}
		r.Count("child_crashes", 1)
	}
	for _, m := range out.inconclusive {
		r.Inconclusive("%s", m)
	}
	r.Count("child_processes", int64(out.children))
	r.Count("child_exits_flagged_by_race_detector", int64(out.raceExits))
	missing := 0
	for _, c := range cases {
		if out.results[c] == nil {
			missing++
		}
	}
	r.Count("cases_without_result", int64(missing))
	r.Count("cases_skipped_after_crash_storm", int64(out.skipped))
}
