// Frame grammar helpers shared by the C12 script: HPACK encoding without the
// dynamic table, raw frame bytes and byte-level mutation.
package c12

import (
	"bytes"
	"encoding/binary"
	"math/rand"

	"golang.org/x/net/http2"
	"golang.org/x/net/http2/hpack"
)

type hf = hpack.HeaderField

func f(name, value string) hf { return hf{Name: name, Value: value} }

// henc encodes header blocks with literals and static-table references only
// (dynamic table size 0), so that a block means the same whatever garbage the
// decoder of the endpoint under test has swallowed before.
type henc struct {
	buf bytes.Buffer
	enc *hpack.Encoder
}

func newHenc() *henc {
	h := &henc{}
	h.enc = hpack.NewEncoder(&h.buf)
	h.enc.SetMaxDynamicTableSize(0)
	return h
}

func (h *henc) block(fields ...hf) []byte {
	h.buf.Reset()
	for _, x := range fields {
		h.enc.WriteField(x)
	}
	return append([]byte(nil), h.buf.Bytes()...)
}

// frameBytes serialises one frame (no validity check whatsoever).
func frameBytes(t http2.FrameType, flags http2.Flags, stream uint32, payload []byte) []byte {
	b := make([]byte, 9+len(payload))
	n := len(payload)
	b[0], b[1], b[2] = byte(n>>16), byte(n>>8), byte(n)
	b[3] = byte(t)
	b[4] = byte(flags)
	binary.BigEndian.PutUint32(b[5:9], stream)
	copy(b[9:], payload)
	return b
}

func u32(v uint32) []byte {
	b := make([]byte, 4)
	binary.BigEndian.PutUint32(b, v)
	return b
}

func settingsPayload(ss ...http2.Setting) []byte {
	var b []byte
	for _, s := range ss {
		b = append(b, byte(s.ID>>8), byte(s.ID))
		b = append(b, u32(s.Val)...)
	}
	return b
}

func randBytes(rng *rand.Rand, n int) []byte {
	b := make([]byte, n)
	rng.Read(b)
	return b
}

// mutate applies one byte-level mutation to valid frame bytes.
func mutate(rng *rand.Rand, valid []byte, other []byte) (out []byte, how string) {
	b := append([]byte(nil), valid...)
	if len(b) == 0 {
		return randBytes(rng, 1+rng.Intn(64)), "garbage"
	}
	switch rng.Intn(8) {
	case 0:
		n := 1 + rng.Intn(8)
		for k := 0; k < n; k++ {
			p := rng.Intn(len(b))
			b[p] ^= 1 << uint(rng.Intn(8))
		}
		return b, "bitflip"
	case 1:
		return b[:rng.Intn(len(b))], "truncate"
	case 2:
		if len(other) == 0 {
			other = randBytes(rng, 32)
		}
		return append(b[:rng.Intn(len(b)+1)], other[rng.Intn(len(other)):]...), "splice"
	case 3:
		p := rng.Intn(len(b))
		q := p + rng.Intn(len(b)-p)
		return append(append(append([]byte(nil), b[:q]...), b[p:q]...), b[q:]...), "duplicate-slice"
	case 4:
		return randBytes(rng, 1+rng.Intn(200)), "garbage"
	case 5:
		// corrupt the length field of the first frame
		v := []uint32{0, 1, 8, 16384, 16385, 1<<24 - 1, uint32(rng.Intn(1 << 24))}[rng.Intn(7)]
		b[0], b[1], b[2] = byte(v>>16), byte(v>>8), byte(v)
		return b, "length-field"
	case 6:
		// corrupt type / flags / stream id of the first frame
		if len(b) >= 9 {
			switch rng.Intn(3) {
			case 0:
				b[3] = byte(rng.Intn(256))
			case 1:
				b[4] = byte(rng.Intn(256))
			default:
				copy(b[5:9], randBytes(rng, 4))
			}
		}
		return b, "header-field"
	default:
		p := rng.Intn(len(b))
		n := 1 + rng.Intn(16)
		ins := randBytes(rng, n)
		return append(append(append([]byte(nil), b[:p]...), ins...), b[p:]...), "insert"
	}
}
