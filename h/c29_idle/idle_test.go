// C29: internal/idle.Manager never puts the channel into idle mode under an
// active RPC, RPC starts return only after idle mode was left, enter/exit
// strictly alternate.
//
// The Manager is driven through its exported API only (no hooks in /repo).  The
// fake ClientConn is the monitor: it owns the "is idle" state under its own
// mutex and is called by the Manager while the Manager holds idleMu, so what it
// sees is exactly what a real ClientConn would be told.
//
// Soundness of the in-flight counter: an RPC goroutine increments `inflight`
// only AFTER OnCallBegin returned and decrements it BEFORE calling OnCallEnd, so
// inflight > 0 means an RPC strictly between its start and its end.  All
// verdicts are safety facts of that kind; wall-clock time is never judged.
package c29

import (
	"bytes"
	"fmt"
	"math/rand"
	"runtime"
	"strconv"
	"sync"
	"sync/atomic"
	"testing"
	"time"

	"google.golang.org/grpc/internal/idle"
	"google.golang.org/grpc/verif/vlib"
)

var spinSink atomic.Int64

// spin burns about n loop iterations (no yield, no syscall).
func spin(n int) {
	var x int64
	for i := 0; i < n; i++ {
		x += int64(i)
	}
	if x == -1 {
		spinSink.Add(1)
	}
}

// padded counters: one cache line each so that the monitor's bookkeeping does
// not serialise the goroutines it watches.
type padCounter struct {
	v atomic.Int64
	_ [56]byte
}

// stackInfo returns the id of the calling goroutine and which Manager entry
// point is on its stack.  It is called inside the fake's callbacks only.
func stackInfo() (gid int64, origin string) {
	var buf [2048]byte
	n := runtime.Stack(buf[:], false)
	b := buf[:n]
	// "goroutine 123 [running]:"
	if bytes.HasPrefix(b, []byte("goroutine ")) {
		rest := b[len("goroutine "):]
		if sp := bytes.IndexByte(rest, ' '); sp > 0 {
			gid, _ = strconv.ParseInt(string(rest[:sp]), 10, 64)
		}
	}
	switch {
	case bytes.Contains(b, []byte("idle.(*Manager).EnterIdleModeForTesting")):
		origin = "testing"
	case bytes.Contains(b, []byte("idle.(*Manager).handleIdleTimeout")):
		origin = "timer"
	case bytes.Contains(b, []byte("idle.(*Manager).OnCallBegin")):
		origin = "rpc"
	case bytes.Contains(b, []byte("idle.(*Manager).ExitIdleMode")):
		origin = "connect"
	default:
		origin = "other"
	}
	return gid, origin
}

func curGID() int64 { g, _ := stackInfo(); return g }

// fakeCC is the ClientConn handed to the Manager and the monitor of the case.
type fakeCC struct {
	mu       sync.Mutex
	idle     bool        // guarded by mu; the Manager starts in idle mode
	idleA    atomic.Bool // mirror of idle for lock-free reads by RPC goroutines
	inflight atomic.Int64

	enterSpin, exitSpin int // how long the callbacks keep the Manager inside its critical section

	// evidence / verdict counters (guarded by mu)
	entries, exits                         int64
	entriesTesting, entriesTimer           int64
	exitsRPC, exitsConnect                 int64
	enterWhileIdle, exitWhileActive        int64
	enteredWithInflight, inflightDuringEnt int64
	// goroutine id -> entries made by that goroutine.  The map is filled before the
	// Manager is used and read-only afterwards (hammerers must never block on the
	// monitor's mutex: a parked goroutine costs an OS wake-up, which on a loaded
	// machine closes the very windows the workload is meant to open).
	byGID map[int64]*padCounter
}

func newFake(enterSpin, exitSpin int) *fakeCC {
	f := &fakeCC{idle: true, enterSpin: enterSpin, exitSpin: exitSpin, byGID: map[int64]*padCounter{}}
	f.idleA.Store(true)
	return f
}

func (f *fakeCC) EnterIdleMode() {
	gid, origin := stackInfo()
	f.mu.Lock()
	if f.idle {
		f.enterWhileIdle++
	}
	if f.inflight.Load() > 0 {
		f.enteredWithInflight++
	}
	f.idle = true
	f.idleA.Store(true)
	f.entries++
	switch origin {
	case "testing":
		f.entriesTesting++
	case "timer":
		f.entriesTimer++
	}
	f.mu.Unlock()
	if c := f.byGID[gid]; c != nil {
		c.v.Add(1)
	}
	spin(f.enterSpin)
	// Still inside the Manager's critical section: no RPC can have returned from
	// OnCallBegin meanwhile.
	if f.inflight.Load() > 0 {
		f.mu.Lock()
		f.inflightDuringEnt++
		f.mu.Unlock()
	}
}

func (f *fakeCC) ExitIdleMode() {
	_, origin := stackInfo()
	spin(f.exitSpin) // the channel is still idle while the real ClientConn would be rebuilding itself
	f.mu.Lock()
	if !f.idle {
		f.exitWhileActive++
	}
	f.idle = false
	f.idleA.Store(false)
	f.exits++
	switch origin {
	case "rpc":
		f.exitsRPC++
	case "connect":
		f.exitsConnect++
	}
	f.mu.Unlock()
}

type stressCfg struct {
	Procs     int `json:"gomaxprocs"`
	Hogs      int `json:"cpu_hogs"`
	RPCs      int `json:"rpc_goroutines"`
	Calls     int `json:"calls_per_rpc_goroutine"`
	GapSpin   int `json:"gap_spin_max"`  // spin between calls (lets the call count reach 0)
	CallSpin  int `json:"call_spin_max"` // spin inside a call
	Hammerers int `json:"enter_idle_hammerers"`
	HamGap    int `json:"hammer_gap_spin_max"`
	Connects  int `json:"connect_goroutines"`
	TimeoutUs int `json:"idle_timeout_us"` // 0: no timer
	EnterSpin int `json:"enter_callback_spin"`
	ExitSpin  int `json:"exit_callback_spin"`
	// Yield: RPC goroutines call runtime.Gosched() in their gaps and hammerers
	// after every attempt.  With fewer Ps than goroutines the Go scheduler then
	// alternates RPCs and entry attempts on one P every few hundred nanoseconds
	// (so the call count really reaches 0 between calls and the channel goes idle
	// at a high rate whatever the machine load is), while the other Ps run the
	// same mix truly in parallel.
	Yield bool `json:"yield_in_gaps"`
}

type rpcG struct {
	beginCalls padCounter // OnCallBegin invocations started
	beginRets  padCounter // OnCallBegin invocations returned
}

type stressResult struct {
	Cfg                  stressCfg `json:"cfg"`
	Entries              int64     `json:"idle_entries"`
	EntriesTesting       int64     `json:"entries_by_testing"`
	EntriesTimer         int64     `json:"entries_by_timer"`
	Exits                int64     `json:"idle_exits"`
	ExitsRPC             int64     `json:"exits_by_rpc"`
	ExitsConnect         int64     `json:"exits_by_connect"`
	Attempts             int64     `json:"enter_attempts"`
	AttemptsFailed       int64     `json:"enter_attempts_not_entered"`
	FailedWithRPCInside  int64     `json:"attempts_not_entered_with_rpc_begin_inside"`
	EnteredWithRPCInside int64     `json:"attempts_entered_with_rpc_begin_inside"`
	Calls                int64     `json:"rpc_calls"`
	IdleSeenDuringCall   int64     `json:"idle_seen_during_call"`
	EnteredWithInflight  int64     `json:"entered_idle_with_rpc_in_flight"`
	InflightDuringEnter  int64     `json:"rpc_in_flight_during_enter_callback"`
	EnterWhileIdle       int64     `json:"enter_while_idle"`
	ExitWhileActive      int64     `json:"exit_while_active"`
	WallMs               int64     `json:"wall_ms"`
}

// stressCase runs one configuration: a fixed number of calls per RPC goroutine;
// hammerers, connectors, the timer and the hogs run until the RPC goroutines
// are done.
func stressCase(cfg stressCfg, seed int64) stressResult {
	t0 := time.Now()
	old := runtime.GOMAXPROCS(cfg.Procs)
	defer runtime.GOMAXPROCS(old)
	f := newFake(cfg.EnterSpin, cfg.ExitSpin)
	m := idle.NewManager(f, time.Duration(cfg.TimeoutUs)*time.Microsecond)
	var stop atomic.Bool
	var bg, rpcWG sync.WaitGroup
	startAll := make(chan struct{}) // closed once the monitor's goroutine table is complete
	for h := 0; h < cfg.Hogs; h++ {
		bg.Add(1)
		go func() {
			defer bg.Done()
			for !stop.Load() {
				spin(20000)
			}
		}()
	}
	gs := make([]*rpcG, cfg.RPCs)
	for i := range gs {
		gs[i] = &rpcG{}
	}
	var idleSeen, calls padCounter
	for i := 0; i < cfg.RPCs; i++ {
		g := gs[i]
		rng := rand.New(rand.NewSource(seed + int64(i)*7919))
		rpcWG.Add(1)
		go func() {
			defer rpcWG.Done()
			<-startAll
			seen := int64(0)
			for c := 0; c < cfg.Calls; c++ {
				g.beginCalls.v.Store(int64(c + 1))
				m.OnCallBegin()
				g.beginRets.v.Store(int64(c + 1))
				f.inflight.Add(1)
				if f.idleA.Load() {
					seen++
				}
				if cfg.CallSpin > 0 {
					spin(rng.Intn(cfg.CallSpin + 1))
				}
				if f.idleA.Load() {
					seen++
				}
				f.inflight.Add(-1)
				m.OnCallEnd()
				if cfg.GapSpin > 0 {
					spin(rng.Intn(cfg.GapSpin + 1))
				}
				if cfg.Yield {
					runtime.Gosched()
				}
			}
			idleSeen.v.Add(seen)
			calls.v.Add(int64(cfg.Calls))
		}()
	}
	var attempts, failed, failedInside, enteredInside padCounter
	type reg struct {
		gid int64
		ctr *padCounter
	}
	gidCh := make(chan reg, cfg.Hammerers)
	for h := 0; h < cfg.Hammerers; h++ {
		rng := rand.New(rand.NewSource(seed ^ int64(h+1)*104729))
		ctr := &padCounter{}
		bg.Add(1)
		go func() {
			defer bg.Done()
			gidCh <- reg{curGID(), ctr}
			<-startAll
			var att, fl, fi, ei int64
			starts := make([]int64, len(gs))
			var mine int64
			for !stop.Load() {
				for i, g := range gs {
					starts[i] = g.beginCalls.v.Load()
				}
				m.EnterIdleModeForTesting()
				inside := false
				for i, g := range gs {
					// call number starts[i]+1 was invoked after the snapshot; if it has
					// returned, a whole OnCallBegin lies inside this attempt
					if g.beginRets.v.Load() > starts[i] {
						inside = true
						break
					}
				}
				now := ctr.v.Load()
				entered := now != mine
				mine = now
				att++
				if !entered {
					fl++
					if inside {
						fi++
					}
				} else if inside {
					ei++
				}
				if cfg.HamGap > 0 {
					spin(rng.Intn(cfg.HamGap + 1))
				}
				if cfg.Yield {
					runtime.Gosched()
				}
			}
			attempts.v.Add(att)
			failed.v.Add(fl)
			failedInside.v.Add(fi)
			enteredInside.v.Add(ei)
		}()
	}
	for c := 0; c < cfg.Connects; c++ {
		rng := rand.New(rand.NewSource(seed ^ int64(c+1)*15485863))
		bg.Add(1)
		go func() {
			defer bg.Done()
			<-startAll
			for !stop.Load() {
				m.ExitIdleMode()
				spin(rng.Intn(2000))
				if cfg.Yield {
					runtime.Gosched()
				}
			}
		}()
	}
	for h := 0; h < cfg.Hammerers; h++ {
		rg := <-gidCh
		f.byGID[rg.gid] = rg.ctr
	}
	close(startAll)
	rpcWG.Wait()
	stop.Store(true)
	bg.Wait()
	m.Close()
	f.mu.Lock()
	defer f.mu.Unlock()
	return stressResult{
		Cfg: cfg, Entries: f.entries, EntriesTesting: f.entriesTesting, EntriesTimer: f.entriesTimer,
		Exits: f.exits, ExitsRPC: f.exitsRPC, ExitsConnect: f.exitsConnect,
		Attempts: attempts.v.Load(), AttemptsFailed: failed.v.Load(),
		FailedWithRPCInside: failedInside.v.Load(), EnteredWithRPCInside: enteredInside.v.Load(),
		Calls: calls.v.Load(), IdleSeenDuringCall: idleSeen.v.Load(),
		EnteredWithInflight: f.enteredWithInflight, InflightDuringEnter: f.inflightDuringEnt,
		EnterWhileIdle: f.enterWhileIdle, ExitWhileActive: f.exitWhileActive,
		WallMs: time.Since(t0).Milliseconds(),
	}
}

func genStress(rng *rand.Rand, i int) stressCfg {
	if i%8 == 0 {
		// The configuration of probe P8 (DESIGN.md §2.6): every goroutine on its own
		// P, GOMAXPROCS=64 and 16 CPU hogs on the 16 cores, 2 RPC goroutines with
		// sub-microsecond gaps, 4 hammerers.  It relies on the OS de-scheduling a
		// hammerer between its CAS and its Lock.
		return stressCfg{Procs: 64, Hogs: 16, RPCs: 2, Hammerers: 4, GapSpin: vlib.Pick(rng, 300, 600, 1000), CallSpin: vlib.Pick(rng, 0, 100)}
	}
	// Multiplexed configurations: more goroutines than Ps and Gosched() in the
	// gaps, so calls and entry attempts alternate at Go-scheduler speed on every
	// P while the Ps race each other; this keeps the idle-entry rate high even
	// when the machine is busy with other work (measured: the P8 shape alone
	// yields a few dozen idle entries per minute on a machine with load 300).
	cfg := stressCfg{
		Yield:     true,
		Procs:     vlib.Pick(rng, 3, 4, 4, 4, 6),
		Hogs:      vlib.Pick(rng, 0, 0, 0, 2),
		RPCs:      vlib.Pick(rng, 2, 2, 2, 3),
		Hammerers: vlib.Pick(rng, 3, 4, 4),
		GapSpin:   vlib.Pick(rng, 0, 100, 100, 200),
		CallSpin:  vlib.Pick(rng, 100, 200, 200, 300),
		HamGap:    vlib.Pick(rng, 0, 0, 50),
		Connects:  vlib.Pick(rng, 0, 0, 1),
		TimeoutUs: vlib.Pick(rng, 0, 0, 0, 1, 5),
		EnterSpin: vlib.Pick(rng, 0, 0, 200),
		ExitSpin:  vlib.Pick(rng, 0, 0, 200),
	}
	switch i % 8 {
	case 1: // best detector of the dropped re-check in the tuning runs
		cfg.Procs, cfg.Hogs, cfg.RPCs, cfg.Hammerers, cfg.GapSpin, cfg.CallSpin, cfg.Connects, cfg.TimeoutUs = 4, 0, 2, 4, 100, 200, 0, 0
	case 2:
		cfg.Procs, cfg.Hogs, cfg.RPCs, cfg.Hammerers, cfg.GapSpin, cfg.CallSpin, cfg.Connects = 4, 0, 3, 4, 200, 100, 0
	case 3:
		cfg.Connects, cfg.Procs = 1, 4
	case 4: // the real timer enters idle as well
		cfg.TimeoutUs = vlib.Pick(rng, 1, 5)
	}
	return cfg
}

func TestVerifC29(t *testing.T) {
	r := vlib.Start(t, "C29")
	stop := r.Watchdog(time.Duration(r.N(8, 35)) * time.Minute)
	defer stop()
	mode := "norace"
	if raceEnabled {
		mode = "race"
	}
	runStress(r, mode)
	runBubbles(t, r, mode)
	const floorEntries = 10000
	if r.Replaying() == nil && r.Counter("idle_entries") < floorEntries {
		r.Inconclusive("only %d idle entries were observed (floor %d): the workload never let the channel go idle often enough to decide anything", r.Counter("idle_entries"), floorEntries)
	}
	if r.Replaying() == nil && r.Counter("attempts_not_entered_with_rpc_begin_inside")+r.Counter("attempts_entered_with_rpc_begin_inside") == 0 {
		r.Inconclusive("no RPC start was observed inside an idle-entry attempt: the CAS/lock window of tryEnterIdleMode was never exercised")
	}
	r.Finish(vlib.Spec{
		Level: "exploration",
		Rule: "(" + mode + " build) stress: PRNG configurations of the real idle.Manager with a monitoring fake ClientConn: 2-6 RPC goroutines (fixed number of calls, PRNG gaps so the call count reaches 0), 1-4 EnterIdleModeForTesting hammerers, 0-2 ExitIdleMode (Connect) callers, optional real 1-50us idle timer, callbacks that hold the Manager's critical section for PRNG spans, GOMAXPROCS=64 with 16 CPU hogs (oversubscription opens the CAS->Lock window, probe P8); " +
			"vt: the same monitor inside synctest bubbles with calls placed on the instants at which the idle timer fires. " +
			"A stress case is non-trivial when the channel went idle >= 1000 times and an RPC start fell inside an idle-entry attempt; distinct = (family, mode, config shape, branches observed: entry by testing/timer, exit by rpc/connect, failed attempt with RPC inside, entered attempt with RPC inside)",
		Assumptions: []string{
			"inflight is incremented after OnCallBegin returned and decremented before OnCallEnd is invoked: inflight>0 is an RPC strictly between start and end",
			"which Manager entry point called the fake (testing/timer/rpc/connect) and the calling goroutine are read from runtime.Stack inside the callback",
			"'attempt not entered' covers both CAS-failed and re-check-under-lock-aborted (indistinguishable from outside); 'with rpc begin inside' = a complete OnCallBegin lay inside the attempt",
			"schedules are sampled (oversubscribed Go scheduler + OS), not enumerated; a run with < 10^4 idle entries or no RPC start inside an entry attempt is inconclusive",
		},
		Floor: 4,
	})
}

func runStress(r *vlib.Run, mode string) {
	const fam = "stress"
	n := r.N(8, 32)
	for i := 0; i < n; i++ {
		if !r.Want(fam, i) {
			continue
		}
		rng := r.Rand(fam, i)
		cfg := genStress(rng, i)
		if r.Thorough() && i%8 != 0 && i%3 == 0 {
			cfg.Procs = vlib.Pick(rng, 2, 16, 64)
		}
		cfg.Calls = r.N(250000, 300000)
		if raceEnabled {
			cfg.Calls = r.N(90000, 150000)
		}
		if !cfg.Yield {
			cfg.Calls /= 3
		}
		r.Progress(fam, i, fmt.Sprintf("%+v", cfg))
		res := stressCase(cfg, rng.Int63())
		judgeStress(r, mode, fam, i, res)
	}
}

func judgeStress(r *vlib.Run, mode, fam string, ci int, res stressResult) {
	r.Eval(1)
	if res.EnteredWithInflight+res.InflightDuringEnter > 0 {
		r.Violation("entered-idle-with-rpc-in-flight", fam, ci, res, "EnterIdleMode was called %d time(s) while an RPC was strictly between OnCallBegin's return and OnCallEnd (and %d time(s) an RPC was in flight when the callback finished)", res.EnteredWithInflight, res.InflightDuringEnter)
	}
	if res.IdleSeenDuringCall > 0 {
		r.Violation("channel-idle-during-call", fam, ci, res, "%d time(s) an RPC goroutine found the channel in idle mode after OnCallBegin had returned / before calling OnCallEnd", res.IdleSeenDuringCall)
	}
	if res.EnterWhileIdle > 0 {
		r.Violation("enter-idle-twice", fam, ci, res, "EnterIdleMode was called %d time(s) while the channel already was in idle mode (enter/exit must alternate)", res.EnterWhileIdle)
	}
	if res.ExitWhileActive > 0 {
		r.Violation("exit-idle-twice", fam, ci, res, "ExitIdleMode was called %d time(s) while the channel was not in idle mode (enter/exit must alternate)", res.ExitWhileActive)
	}
	if d := res.Exits - res.Entries; d != 0 && d != 1 {
		r.Violation("enter-exit-count-mismatch", fam, ci, res, "%d exits vs %d entries (the Manager starts idle: exits - entries must be 0 or 1)", res.Exits, res.Entries)
	}
	r.Count("idle_entries", res.Entries)
	r.Count("idle_entries_by_testing", res.EntriesTesting)
	r.Count("idle_entries_by_timer", res.EntriesTimer)
	r.Count("idle_exits_by_rpc", res.ExitsRPC)
	r.Count("idle_exits_by_connect", res.ExitsConnect)
	r.Count("enter_attempts", res.Attempts)
	r.Count("enter_attempts_not_entered", res.AttemptsFailed)
	r.Count("attempts_not_entered_with_rpc_begin_inside", res.FailedWithRPCInside)
	r.Count("attempts_entered_with_rpc_begin_inside", res.EnteredWithRPCInside)
	r.Count("rpc_calls", res.Calls)
	r.Count("stress_wall_ms", res.WallMs)
	if res.Entries < 1000 {
		r.Count("stress_cases_with_few_idle_entries", 1)
	}
	if res.Entries >= 1000 && res.FailedWithRPCInside+res.EnteredWithRPCInside > 0 {
		c := res.Cfg
		r.Nontrivial(fmt.Sprintf("%s/stress/p%d/r%d/h%d/c%d/t%d/br:%d%d%d%d%d%d", mode, c.Procs, c.RPCs, c.Hammerers, c.Connects, b2i(c.TimeoutUs > 0),
			b2i(res.EntriesTesting > 0), b2i(res.EntriesTimer > 0), b2i(res.ExitsRPC > 0), b2i(res.ExitsConnect > 0), b2i(res.FailedWithRPCInside > 0), b2i(res.EnteredWithRPCInside > 0)))
	}
	if ci < 3 {
		r.Sample(res)
	}
}

func b2i(b bool) int {
	if b {
		return 1
	}
	return 0
}
