package c29

import (
	"fmt"
	"math/rand"
	"sync"
	"testing"
	"testing/synctest"
	"time"

	"google.golang.org/grpc/internal/idle"
	"google.golang.org/grpc/verif/hist"
	"google.golang.org/grpc/verif/vlib"
)

// Family "vt": the real Manager with its real idle timer inside a synctest
// bubble.  All sleeps are multiples of half the idle timeout, so OnCallBegin /
// OnCallEnd / Connect / EnterIdleModeForTesting fall on the very virtual
// instants at which the timer callback runs; goroutines woken at one instant
// run in parallel.  The history (hist) is judged after the bubble ended.

const vtTimeout = 10 * time.Millisecond

type vtStep struct {
	SleepHalves int    `json:"sleep_half_timeouts"`
	Op          string `json:"op"` // call | connect | enter
	HoldHalves  int    `json:"hold_half_timeouts,omitempty"`
}

type vtCfg struct {
	Actors [][]vtStep `json:"actors"`
}

type vtViolation struct {
	Cfg     vtCfg     `json:"cfg"`
	Witness any       `json:"witness,omitempty"`
	History []hist.Op `json:"history,omitempty"`
}

// recCC records what the Manager tells the channel.
type recCC struct {
	log *hist.Log
}

func (c *recCC) EnterIdleMode() {
	_, origin := stackInfo()
	c.log.PointVT("enter", "", origin, time.Now().UnixNano())
}
func (c *recCC) ExitIdleMode() {
	_, origin := stackInfo()
	c.log.PointVT("exit", "", origin, time.Now().UnixNano())
}

func genVT(rng *rand.Rand) vtCfg {
	var cfg vtCfg
	actors := 2 + rng.Intn(4)
	for a := 0; a < actors; a++ {
		var steps []vtStep
		kind := "call"
		if a >= 2 {
			kind = vlib.Pick(rng, "call", "connect", "enter")
		}
		for s, n := 0, 3+rng.Intn(8); s < n; s++ {
			st := vtStep{SleepHalves: vlib.Pick(rng, 0, 1, 2, 2, 2, 3, 4, 4), Op: kind}
			if kind == "call" {
				st.HoldHalves = vlib.Pick(rng, 0, 0, 1, 2, 2, 4)
			}
			steps = append(steps, st)
		}
		cfg.Actors = append(cfg.Actors, steps)
	}
	return cfg
}

func runBubbles(t *testing.T, r *vlib.Run, mode string) {
	const fam = "vt"
	n := r.N(1500, 15000)
	if raceEnabled {
		n = r.N(800, 8000)
	}
	for i := 0; i < n; i++ {
		if !r.Want(fam, i) {
			continue
		}
		cfg := genVT(r.Rand(fam, i))
		var ops []hist.Op
		synctest.Test(t, func(t *testing.T) {
			rec := hist.NewRecorder()
			cc := &recCC{log: rec.Client()}
			m := idle.NewManager(cc, vtTimeout)
			var wg sync.WaitGroup
			for _, steps := range cfg.Actors {
				l := rec.Client()
				wg.Add(1)
				go func() {
					defer wg.Done()
					for _, st := range steps {
						time.Sleep(time.Duration(st.SleepHalves) * vtTimeout / 2)
						switch st.Op {
						case "call":
							h := l.CallVT("begin", "", nil, time.Now().UnixNano())
							m.OnCallBegin()
							l.Return(h, nil)
							time.Sleep(time.Duration(st.HoldHalves) * vtTimeout / 2)
							h = l.CallVT("end", "", nil, time.Now().UnixNano())
							m.OnCallEnd()
							l.Return(h, nil)
						case "connect":
							h := l.CallVT("connect", "", nil, time.Now().UnixNano())
							m.ExitIdleMode()
							l.Return(h, nil)
						case "enter":
							h := l.CallVT("tryenter", "", nil, time.Now().UnixNano())
							m.EnterIdleModeForTesting()
							l.Return(h, nil)
						}
					}
				}()
			}
			wg.Wait()
			time.Sleep(3 * vtTimeout) // let the timer put the channel to sleep once more
			synctest.Wait()
			m.Close()
			ops = rec.Ops()
		})
		judgeVT(r, mode, fam, i, cfg, ops)
	}
}

func judgeVT(r *vlib.Run, mode, fam string, ci int, cfg vtCfg, ops []hist.Op) {
	r.Eval(1)
	viol := func(key string, witness any, format string, a ...any) {
		r.Violation(key, fam, ci, vtViolation{Cfg: cfg, Witness: witness, History: ops}, format, a...)
	}
	// (1) alternation, starting with an exit (the Manager starts in idle mode)
	var seq []bool // true = exit
	var trans []hist.Op
	for _, o := range ops {
		if o.Kind == "enter" || o.Kind == "exit" {
			seq = append(seq, o.Kind == "exit")
			trans = append(trans, o)
		}
	}
	if i := hist.Alternation(seq, true); i >= 0 {
		viol(map[bool]string{true: "exit-idle-twice", false: "enter-idle-twice"}[seq[i]], trans[i], "transition %d is %s(%v) but enter/exit must alternate (starting in idle mode)", i, trans[i].Kind, trans[i].In)
	}
	// (2) an RPC is "active" from the return of OnCallBegin to the invocation of
	// OnCallEnd; per client the begin/end ops alternate.
	type span struct{ from, to int64 }
	var spans []span
	open := map[int]int64{}
	for _, o := range ops {
		switch o.Kind {
		case "begin":
			open[o.Client] = o.Ret
		case "end":
			spans = append(spans, span{open[o.Client], o.Call})
			delete(open, o.Client)
		}
	}
	timerEntries, testEntries, sameInstant := 0, 0, 0
	for _, o := range ops {
		if o.Kind != "enter" {
			continue
		}
		if o.In == "timer" {
			timerEntries++
		} else {
			testEntries++
		}
		for _, s := range spans {
			if s.from != 0 && s.from < o.Call && o.Call < s.to {
				viol("entered-idle-with-rpc-in-flight", []any{o, s}, "EnterIdleMode(%v) at stamp %d while an RPC was active (OnCallBegin returned at %d, OnCallEnd invoked at %d)", o.In, o.Call, s.from, s.to)
				break
			}
		}
		for _, b := range ops {
			if (b.Kind == "begin" || b.Kind == "end") && b.VT == o.VT {
				sameInstant++
				break
			}
		}
	}
	// (3) the channel is not idle while an RPC is active: the last transition
	// before the span's start must be an exit, and no enter inside (2).
	for _, s := range spans {
		if s.from == 0 {
			continue
		}
		last := ""
		for _, tr := range trans {
			if tr.Call < s.from {
				last = tr.Kind
			}
		}
		if last != "exit" {
			viol("channel-idle-during-call", s, "OnCallBegin returned at stamp %d but the last thing the channel had been told was %q", s.from, last)
			break
		}
	}
	exitsRPC := 0
	for _, tr := range trans {
		if tr.Kind == "exit" && tr.In == "rpc" {
			exitsRPC++
		}
	}
	r.Count("vt_idle_entries_by_timer", int64(timerEntries))
	r.Count("vt_idle_entries_by_testing", int64(testEntries))
	r.Count("vt_exits_by_rpc", int64(exitsRPC))
	r.Count("vt_entries_at_instant_of_call_begin_or_end", int64(sameInstant))
	r.Count("vt_rpc_calls", int64(len(spans)))
	if timerEntries > 0 && sameInstant > 0 {
		r.Nontrivial(fmt.Sprintf("%s/vt/a%d/te%d/xe%d/same%d/rpcx%d", mode, len(cfg.Actors), b2i(timerEntries > 1), b2i(testEntries > 0), b2i(sameInstant > 1), b2i(exitsRPC > 1)))
	}
	if ci < 1 {
		r.Sample(map[string]any{"family": fam, "case": ci, "cfg": cfg, "timer_entries": timerEntries, "calls": len(spans)})
	}
}
