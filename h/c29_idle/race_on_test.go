//go:build race

package c29

const raceEnabled = true
