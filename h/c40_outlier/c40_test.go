// C40: the REAL outlier-detection balancer (internal/xds/balancer/outlierdetection,
// obtained through balancer.Get, config through its own JSON parser) driven in
// testing/synctest bubbles with a recording parent ClientConn (fake SubConns, a
// recording MetricsRecorder) and a scripted child policy, against a reference
// model of gRFC A50 written from the property statement.
//
// What is observed (all at the balancer's boundary):
//   - the health listener the child registers on every READY SubConn (this is
//     how outlier detection shows an ejection to its child since the A61
//     "pick_first is the universal leaf" change): an ejection is the delivery
//     of TRANSIENT_FAILURE with a nil ConnectionError, an un-ejection the
//     re-delivery of the latest real health state; real health updates pushed
//     by the script carry a tagged ConnectionError and are so told apart;
//   - the ejections_enforced / ejections_unenforced metrics (count cross-check);
//   - the wrapped picker given to the parent (calls are made through it and
//     finished through its Done callback).
//
// Before every interval firing the script makes sure that each current endpoint
// has one READY SubConn with a registered health listener (a "witness"), so
// every ejection / un-ejection decision of the real code is visible and the
// reference can follow the decisions actually taken (map iteration order decides
// which candidates win when max_ejection_percent binds; enforcement
// percentages are 0 or 100 so nothing else is random).
//
// Verdicts (statement -> key):
//
//	ejected only with >= request_volume calls and failing a criterion
//	     -> ejected-below-request-volume, ejected-below-minimum-hosts,
//	        ejected-non-outlier, ejected-with-zero-enforcement, ejection-outside-interval
//	no ejection while ejected share >= max_ejection_percent -> ejected-over-max-percent
//	un-ejection once min(base*mult, max(base,max)) elapsed -> uneject-late, uneject-early
//	subchannels appear TF while ejected -> ejected-child-sees-non-tf,
//	        registered-while-ejected-not-told-tf, unejected-child-still-sees-tf
//	no-op config un-ejects everything -> noop-config-still-ejected
//
// "Must eject" is NOT a verdict (the statement only bounds when ejection may
// happen); candidates that were not ejected although the real ejected share
// left room are counted in evidence (candidate_not_ejected_despite_room).
//
// R2 notes: decisions within 1e-9 of the success-rate threshold, failure
// percentages / ejected shares where exact and float64 evaluation differ, and
// un-ejection at exactly now == ejection time + duration (statement "has
// elapsed", A50 "after") are accepted either way.
package c40

import (
	"context"
	"encoding/json"
	"errors"
	"fmt"
	"math"
	"math/big"
	"math/rand"
	"sort"
	"strings"
	"sync"
	"testing"
	"testing/synctest"
	"time"

	"google.golang.org/grpc/balancer"
	"google.golang.org/grpc/connectivity"
	estats "google.golang.org/grpc/experimental/stats"
	"google.golang.org/grpc/internal/channelz"
	"google.golang.org/grpc/internal/xds/balancer/outlierdetection"
	"google.golang.org/grpc/resolver"
	"google.golang.org/grpc/serviceconfig"
	"google.golang.org/grpc/verif/vlib"
)

const childPol = "c40_child"

// ---------------------------------------------------------------------------
// scripted child policy

type childCfg struct {
	serviceconfig.LoadBalancingConfig `json:"-"`
}

type childBuilder struct{}

func (*childBuilder) Name() string { return childPol }
func (*childBuilder) ParseConfig(json.RawMessage) (serviceconfig.LoadBalancingConfig, error) {
	return &childCfg{}, nil
}

var harnesses sync.Map // authority -> *harness

func (*childBuilder) Build(cc balancer.ClientConn, opts balancer.BuildOptions) balancer.Balancer {
	cb := &childBal{cc: cc}
	if v, ok := harnesses.Load(opts.Authority); ok {
		cb.h = v.(*harness)
		cb.h.mu.Lock()
		cb.h.child = cb
		cb.h.mu.Unlock()
	}
	return cb
}

func init() { balancer.Register(&childBuilder{}) }

type childBal struct {
	cc balancer.ClientConn
	h  *harness
}

func epKey(e resolver.Endpoint) string {
	as := make([]string, 0, len(e.Addresses))
	for _, a := range e.Addresses {
		as = append(as, a.Addr)
	}
	sort.Strings(as)
	return strings.Join(as, "+")
}

// UpdateClientConnState behaves like a petiole policy with one leaf per
// endpoint: SubConns of endpoints that disappeared (or whose address set
// changed) are shut down, every address of a new endpoint gets a SubConn.
func (cb *childBal) UpdateClientConnState(s balancer.ClientConnState) error {
	h := cb.h
	if h == nil {
		return nil
	}
	want := map[string]bool{} // key|addr
	keys := map[string]bool{}
	for _, e := range s.ResolverState.Endpoints {
		k := epKey(e)
		keys[k] = true
		for _, a := range e.Addresses {
			want[k+"|"+a.Addr] = true
		}
	}
	h.mu.Lock()
	var drop []*csc
	have := map[string]bool{}
	for _, c := range h.cscs {
		if c.dead {
			continue
		}
		if !keys[c.key] {
			drop = append(drop, c)
			continue
		}
		have[c.key+"|"+c.addr] = true
	}
	pushPicker := h.pushPickerOnUpdate
	h.mu.Unlock()
	for _, c := range drop {
		cb.shutdown(c)
	}
	var todo []string
	for ka := range want {
		if !have[ka] {
			todo = append(todo, ka)
		}
	}
	sort.Strings(todo)
	for _, ka := range todo {
		i := strings.Index(ka, "|")
		cb.newSC(ka[:i], ka[i+1:])
	}
	if pushPicker {
		cb.cc.UpdateState(balancer.State{ConnectivityState: connectivity.Ready, Picker: &childPicker{h: h}})
	}
	return nil
}

func (cb *childBal) newSC(key, addr string) *csc {
	h := cb.h
	c := &csc{key: key, addr: addr}
	h.mu.Lock()
	c.id = len(h.cscs)
	h.cscs = append(h.cscs, c)
	h.pendingPSC = nil
	h.mu.Unlock()
	w, err := cb.cc.NewSubConn([]resolver.Address{{Addr: addr}}, balancer.NewSubConnOptions{
		StateListener: func(s balancer.SubConnState) { h.onChildConn(c, s) },
	})
	h.mu.Lock()
	if err != nil {
		c.dead = true
		h.newSCErrors++
	} else {
		c.wrapper = w
		c.p = h.pendingPSC
		if c.p != nil {
			c.p.c = c
		}
	}
	h.mu.Unlock()
	if err == nil {
		w.Connect()
	}
	return c
}

func (cb *childBal) shutdown(c *csc) {
	cb.h.mu.Lock()
	c.dead = true
	w := c.wrapper
	cb.h.mu.Unlock()
	if w != nil {
		w.Shutdown()
	}
}

func (cb *childBal) ResolverError(error)                                        {}
func (cb *childBal) UpdateSubConnState(balancer.SubConn, balancer.SubConnState) {}
func (cb *childBal) Close()                                                     {}
func (cb *childBal) ExitIdle()                                                  {}

// childPicker routes a pick to the SubConn named by the method ("/<csc id>").
type childPicker struct{ h *harness }

func (p *childPicker) Pick(info balancer.PickInfo) (balancer.PickResult, error) {
	var id int
	if _, err := fmt.Sscanf(info.FullMethodName, "/%d", &id); err != nil {
		return balancer.PickResult{}, balancer.ErrNoSubConnAvailable
	}
	p.h.mu.Lock()
	defer p.h.mu.Unlock()
	if id < 0 || id >= len(p.h.cscs) || p.h.cscs[id].wrapper == nil {
		return balancer.PickResult{}, balancer.ErrNoSubConnAvailable
	}
	return balancer.PickResult{SubConn: p.h.cscs[id].wrapper}, nil
}

// ---------------------------------------------------------------------------
// observation side

// csc: a SubConn as the child sees it (the wrapper outlier detection returned).
type csc struct {
	id         int
	key, addr  string
	wrapper    balancer.SubConn
	p          *psc
	dead       bool
	conn       connectivity.State
	connSeen   int
	epoch      int  // bumped at every connectivity update (a health listener lives for one epoch)
	registered bool // child registered a health listener in this epoch
	last       *delivery
}

// psc: the SubConn of the fake parent channel.
type psc struct {
	balancer.SubConn // nil, satisfies EnforceSubConnEmbedding
	h                *harness
	id               int
	addrs            []resolver.Address
	listener         func(balancer.SubConnState)
	c                *csc
	healthFn         func(balancer.SubConnState)
	conn             connectivity.State
	shutdown         bool
	notified         bool
}

func (p *psc) Connect()                           {}
func (p *psc) UpdateAddresses([]resolver.Address) {}
func (p *psc) GetOrBuildProducer(balancer.ProducerBuilder) (balancer.Producer, func()) {
	return nil, func() {}
}
func (p *psc) Shutdown() {
	p.h.mu.Lock()
	p.shutdown = true
	p.h.mu.Unlock()
}
func (p *psc) RegisterHealthListener(fn func(balancer.SubConnState)) {
	p.h.mu.Lock()
	p.healthFn = fn
	p.h.mu.Unlock()
}

type healthTag struct{ n int }

func (t healthTag) Error() string { return fmt.Sprintf("c40 real health update #%d", t.n) }

type delivery struct {
	c     *csc
	epoch int
	st    connectivity.State
	tag   int // 0: nil ConnectionError; >0: script's tag; -1: some other error
}

func (d delivery) isEject() bool { return d.st == connectivity.TransientFailure && d.tag == 0 }

type metricRec struct {
	name   string
	labels []string
}

type recorder struct {
	estats.MetricsRecorder // nil, satisfies the embedding requirement
	h                      *harness
}

func (r *recorder) RecordInt64Count(hd *estats.Int64CountHandle, incr int64, labels ...string) {
	r.h.mu.Lock()
	for i := int64(0); i < incr; i++ {
		r.h.metrics = append(r.h.metrics, metricRec{hd.Descriptor().Name, append([]string(nil), labels...)})
	}
	r.h.mu.Unlock()
}
func (r *recorder) RecordFloat64Count(*estats.Float64CountHandle, float64, ...string)       {}
func (r *recorder) RecordInt64Histo(*estats.Int64HistoHandle, int64, ...string)             {}
func (r *recorder) RecordFloat64Histo(*estats.Float64HistoHandle, float64, ...string)       {}
func (r *recorder) RecordInt64Gauge(*estats.Int64GaugeHandle, int64, ...string)             {}
func (r *recorder) RecordInt64UpDownCount(*estats.Int64UpDownCountHandle, int64, ...string) {}
func (r *recorder) RegisterAsyncReporter(estats.AsyncMetricReporter, ...estats.AsyncMetric) func() {
	return func() {}
}

type harness struct {
	balancer.ClientConn // nil; every method used is overridden

	mu                 sync.Mutex
	child              *childBal
	cscs               []*csc
	pscs               []*psc
	pendingPSC         *psc
	parent             balancer.State
	parentN            int
	metrics            []metricRec
	deliveries         []delivery
	pushPickerOnUpdate bool
	newSCErrors        int
	staleDeliveries    int
	rec                *recorder
}

func (h *harness) NewSubConn(addrs []resolver.Address, opts balancer.NewSubConnOptions) (balancer.SubConn, error) {
	h.mu.Lock()
	defer h.mu.Unlock()
	p := &psc{h: h, id: len(h.pscs), addrs: addrs, listener: opts.StateListener, conn: connectivity.Idle}
	h.pscs = append(h.pscs, p)
	h.pendingPSC = p
	return p, nil
}
func (h *harness) RemoveSubConn(balancer.SubConn)                       {}
func (h *harness) UpdateAddresses(balancer.SubConn, []resolver.Address) {}
func (h *harness) ResolveNow(resolver.ResolveNowOptions)                {}
func (h *harness) Target() string                                       { return "c40:///verif" }
func (h *harness) MetricsRecorder() estats.MetricsRecorder              { return h.rec }
func (h *harness) UpdateState(s balancer.State) {
	h.mu.Lock()
	h.parent = s
	h.parentN++
	h.mu.Unlock()
}

// child's connectivity listener (runs on the balancer's goroutine)
func (h *harness) onChildConn(c *csc, s balancer.SubConnState) {
	h.mu.Lock()
	c.conn = s.ConnectivityState
	c.connSeen++
	c.epoch++
	c.last = nil
	ep := c.epoch
	reg := s.ConnectivityState == connectivity.Ready && !c.dead
	c.registered = reg
	w := c.wrapper
	h.mu.Unlock()
	if reg && w != nil {
		// what pick_first does on READY when its parent asked for health reporting
		w.RegisterHealthListener(func(hs balancer.SubConnState) { h.onHealth(c, ep, hs) })
	}
}

func (h *harness) onHealth(c *csc, epoch int, hs balancer.SubConnState) {
	d := delivery{c: c, epoch: epoch, st: hs.ConnectivityState}
	var ht healthTag
	switch {
	case hs.ConnectionError == nil:
	case errors.As(hs.ConnectionError, &ht):
		d.tag = ht.n
	default:
		d.tag = -1
	}
	h.mu.Lock()
	if epoch != c.epoch || c.dead {
		h.staleDeliveries++
	} else {
		h.deliveries = append(h.deliveries, d)
		dd := d
		c.last = &dd
	}
	h.mu.Unlock()
}

// ---------------------------------------------------------------------------
// reference model (gRFC A50)

type srCfg struct {
	StdevFactor           uint32 `json:"stdevFactor"`
	EnforcementPercentage uint32 `json:"enforcementPercentage"`
	MinimumHosts          uint32 `json:"minimumHosts"`
	RequestVolume         uint32 `json:"requestVolume"`
}
type fpCfg struct {
	Threshold             uint32 `json:"threshold"`
	EnforcementPercentage uint32 `json:"enforcementPercentage"`
	MinimumHosts          uint32 `json:"minimumHosts"`
	RequestVolume         uint32 `json:"requestVolume"`
}
type odCfg struct {
	Interval time.Duration `json:"-"`
	Base     time.Duration `json:"-"`
	MaxEj    time.Duration `json:"-"`
	MaxPct   uint32        `json:"max_ejection_percent"`
	SR       *srCfg        `json:"success_rate,omitempty"`
	FP       *fpCfg        `json:"failure_percentage,omitempty"`
	Text     string        `json:"text"`
}

func (c *odCfg) noop() bool { return c.SR == nil && c.FP == nil }

func durJSON(d time.Duration) string { return fmt.Sprintf("%d.%09ds", d/time.Second, d%time.Second) }

func (c *odCfg) jsonText() string {
	var sb strings.Builder
	fmt.Fprintf(&sb, `{"interval":%q,"baseEjectionTime":%q,"maxEjectionTime":%q,"maxEjectionPercent":%d`, durJSON(c.Interval), durJSON(c.Base), durJSON(c.MaxEj), c.MaxPct)
	if c.SR != nil {
		fmt.Fprintf(&sb, `,"successRateEjection":{"stdevFactor":%d,"enforcementPercentage":%d,"minimumHosts":%d,"requestVolume":%d}`, c.SR.StdevFactor, c.SR.EnforcementPercentage, c.SR.MinimumHosts, c.SR.RequestVolume)
	}
	if c.FP != nil {
		fmt.Fprintf(&sb, `,"failurePercentageEjection":{"threshold":%d,"enforcementPercentage":%d,"minimumHosts":%d,"requestVolume":%d}`, c.FP.Threshold, c.FP.EnforcementPercentage, c.FP.MinimumHosts, c.FP.RequestVolume)
	}
	fmt.Fprintf(&sb, `,"childPolicy":[{%q:{}}]}`, childPol)
	return sb.String()
}

type mEp struct {
	inc        int
	key        string
	addrs      []string
	succ, fail uint32 // calls finished since the last firing
	ejected    bool
	ejAt       time.Time
	mult       int64
	unejBy     string // how it was last un-ejected ("noop", "time")
}

type model struct {
	cfg        *odCfg
	timerStart time.Time
	nextFire   time.Time // zero: no timer
	eps        map[string]*mEp
	addr       map[string]*mEp
	assoc      map[*csc]*mEp
	incSeq     int
}

func (m *model) current(ep *mEp) bool { return ep != nil && m.eps[ep.key] == ep }

func (m *model) ejectedCount() int {
	n := 0
	for _, e := range m.eps {
		if e.ejected {
			n++
		}
	}
	return n
}

// update applies a config + endpoint list at time now and returns the endpoints
// un-ejected by a no-op config.
func (m *model) update(now time.Time, cfg *odCfg, endpoints [][]string) (unejected []*mEp, removedEjected int) {
	m.cfg = cfg
	newKeys := map[string]bool{}
	for _, as := range endpoints {
		s := append([]string(nil), as...)
		sort.Strings(s)
		k := strings.Join(s, "+")
		newKeys[k] = true
		if m.eps[k] == nil {
			m.incSeq++
			m.eps[k] = &mEp{inc: m.incSeq, key: k, addrs: s}
		}
	}
	for k, e := range m.eps {
		if !newKeys[k] {
			if e.ejected {
				removedEjected++
			}
			delete(m.eps, k)
		}
	}
	m.addr = map[string]*mEp{}
	for _, as := range endpoints {
		s := append([]string(nil), as...)
		sort.Strings(s)
		e := m.eps[strings.Join(s, "+")]
		for _, a := range as {
			if m.addr[a] == nil {
				m.addr[a] = e
			}
		}
	}
	if cfg.noop() {
		// A50: unset the timer start, un-eject everything, multipliers to 0
		m.timerStart, m.nextFire = time.Time{}, time.Time{}
		for _, e := range m.eps {
			if e.ejected {
				e.ejected = false
				e.unejBy = "noop"
				unejected = append(unejected, e)
			}
			e.mult = 0
		}
		return
	}
	if m.timerStart.IsZero() {
		m.timerStart = now
		for _, e := range m.eps {
			e.succ, e.fail = 0, 0
		}
		m.nextFire = now.Add(cfg.Interval)
	} else {
		m.nextFire = m.timerStart.Add(cfg.Interval)
		if m.nextFire.Before(now) {
			m.nextFire = now
		}
	}
	return
}

type candInfo struct {
	total          uint32
	srDef, srMaybe bool
	fpDef, fpMaybe bool
	srConsidered   bool
	fpConsidered   bool
}

// candidates evaluates both criteria on the counters of the finished interval.
func (m *model) candidates(snap map[*mEp][2]uint32) (map[*mEp]*candInfo, int, int) {
	out := map[*mEp]*candInfo{}
	for e, sf := range snap {
		out[e] = &candInfo{total: sf[0] + sf[1]}
	}
	srHosts, fpHosts := 0, 0
	if sr := m.cfg.SR; sr != nil {
		var cons []*mEp
		for e, sf := range snap {
			if t := sf[0] + sf[1]; t >= sr.RequestVolume && t > 0 {
				cons = append(cons, e)
				out[e].srConsidered = true
			}
		}
		srHosts = len(cons)
		if len(cons) > 0 && uint32(len(cons)) >= sr.MinimumHosts {
			// exact mean and variance of the success rates
			n := big.NewRat(int64(len(cons)), 1)
			sum := new(big.Rat)
			rate := map[*mEp]*big.Rat{}
			for _, e := range cons {
				sf := snap[e]
				rate[e] = big.NewRat(int64(sf[0]), int64(sf[0]+sf[1]))
				sum.Add(sum, rate[e])
			}
			mean := new(big.Rat).Quo(sum, n)
			vs := new(big.Rat)
			for _, e := range cons {
				d := new(big.Rat).Sub(rate[e], mean)
				vs.Add(vs, d.Mul(d, d))
			}
			variance := new(big.Rat).Quo(vs, n)
			vf := new(big.Float).SetPrec(200).SetRat(variance)
			sd := new(big.Float).SetPrec(200).Sqrt(vf)
			fac := new(big.Float).SetPrec(200).Quo(big.NewFloat(float64(sr.StdevFactor)), big.NewFloat(1000))
			req := new(big.Float).SetPrec(200).SetRat(mean)
			req.Sub(req, new(big.Float).SetPrec(200).Mul(sd, fac))
			for _, e := range cons {
				r := new(big.Float).SetPrec(200).SetRat(rate[e])
				diff, _ := new(big.Float).SetPrec(200).Sub(r, req).Float64()
				switch {
				case diff < -1e-9:
					out[e].srDef, out[e].srMaybe = true, true
				case diff <= 1e-9:
					out[e].srMaybe = true // float64 summation order decides
				}
			}
		}
	}
	if fp := m.cfg.FP; fp != nil {
		var cons []*mEp
		for e, sf := range snap {
			if t := sf[0] + sf[1]; t >= fp.RequestVolume && t > 0 {
				cons = append(cons, e)
				out[e].fpConsidered = true
			}
		}
		fpHosts = len(cons)
		if len(cons) > 0 && uint32(len(cons)) >= fp.MinimumHosts {
			for _, e := range cons {
				sf := snap[e]
				exact := uint64(sf[1])*100 > uint64(fp.Threshold)*uint64(sf[0]+sf[1])
				fl := (float64(sf[1])/float64(sf[0]+sf[1]))*100 > float64(fp.Threshold)
				out[e].fpDef = exact && fl
				out[e].fpMaybe = exact || fl
			}
		}
	}
	return out, srHosts, fpHosts
}

// roomFor reports whether an ejection is permitted when cnt of n endpoints are
// ejected: (definitely, possibly).
func roomFor(cnt, n int, pct uint32) (def, maybe bool) {
	if n == 0 {
		return false, false
	}
	exact := uint64(cnt)*100 < uint64(pct)*uint64(n)
	fl := !(float64(cnt)/float64(n)*100 >= float64(pct))
	return exact && fl, exact || fl
}

func (m *model) ejectionDuration(e *mEp) time.Duration {
	et := m.cfg.Base * time.Duration(e.mult)
	met := m.cfg.Base
	if m.cfg.MaxEj > met {
		met = m.cfg.MaxEj
	}
	if et > met {
		et = met
	}
	return et
}

// ---------------------------------------------------------------------------
// case driver

type evRec struct {
	T    string `json:"t"`
	Kind string `json:"kind"`
	Desc string `json:"desc,omitempty"`
}

type caseDetail struct {
	Events    []evRec  `json:"last_events"`
	Config    string   `json:"config"`
	Endpoints []string `json:"endpoints_model"`
	Note      string   `json:"note,omitempty"`
}

type pendingCall struct {
	done   func(balancer.DoneInfo)
	fail   bool
	ep     *mEp
	counts bool
}

type caseState struct {
	t               *testing.T
	r               *vlib.Run
	fam             string
	idx             int
	rng             *rand.Rand
	h               *harness
	od              balancer.Balancer
	m               *model
	det             *caseDetail
	t0              time.Time
	tagN            int
	pushedThisEvent map[int]bool
	pending         []pendingCall
	stop            bool
	parser          balancer.ConfigParser
	endpointsNow    [][]string
	firings         int
}

func (cs *caseState) logEv(kind, desc string) {
	cs.det.Events = append(cs.det.Events, evRec{T: time.Since(cs.t0).String(), Kind: kind, Desc: desc})
	if len(cs.det.Events) > 60 {
		cs.det.Events = cs.det.Events[len(cs.det.Events)-60:]
	}
}

func (cs *caseState) refreshDetail() {
	cs.det.Config = cs.m.cfg.Text
	cs.det.Endpoints = cs.det.Endpoints[:0]
	keys := make([]string, 0, len(cs.m.eps))
	for k := range cs.m.eps {
		keys = append(keys, k)
	}
	sort.Strings(keys)
	for _, k := range keys {
		e := cs.m.eps[k]
		s := fmt.Sprintf("%s[#%d calls=%d/%d", k, e.inc, e.succ, e.fail)
		if e.ejected {
			s += fmt.Sprintf(" EJECTED at %v mult=%d until %v", e.ejAt.Sub(cs.t0), e.mult, e.ejAt.Add(cs.m.ejectionDuration(e)).Sub(cs.t0))
		} else if e.mult > 0 {
			s += fmt.Sprintf(" mult=%d", e.mult)
		}
		cs.det.Endpoints = append(cs.det.Endpoints, s+"]")
	}
}

func (cs *caseState) viol(key, format string, a ...any) {
	cs.refreshDetail()
	if cs.r.Violation(key, cs.fam, cs.idx, cs.det, format, a...) {
		cs.stop = true
	}
}

// settle: quiescence, then notify pending SubConn shutdowns, quiescence again.
func (cs *caseState) settle() {
	synctest.Wait()
	for {
		cs.h.mu.Lock()
		var todo []*psc
		for _, p := range cs.h.pscs {
			if p.shutdown && !p.notified {
				p.notified = true
				todo = append(todo, p)
			}
		}
		cs.h.mu.Unlock()
		if len(todo) == 0 {
			return
		}
		for _, p := range todo {
			p.listener(balancer.SubConnState{ConnectivityState: connectivity.Shutdown})
		}
		synctest.Wait()
	}
}

// absorbNewSubConns associates SubConns created since the last call with the
// endpoint incarnation that owns their address now (A50: looked up at creation).
func (cs *caseState) absorbNewSubConns() {
	cs.h.mu.Lock()
	defer cs.h.mu.Unlock()
	for _, c := range cs.h.cscs {
		if _, ok := cs.m.assoc[c]; !ok {
			cs.m.assoc[c] = cs.m.addr[c.addr] // may be nil: not tracked
		}
	}
}

func (cs *caseState) takeDeliveries() ([]delivery, []metricRec) {
	cs.h.mu.Lock()
	defer cs.h.mu.Unlock()
	d, mt := cs.h.deliveries, cs.h.metrics
	cs.h.deliveries, cs.h.metrics = nil, nil
	return d, mt
}

func (cs *caseState) liveCSCs(filter func(*csc) bool) []*csc {
	cs.h.mu.Lock()
	defer cs.h.mu.Unlock()
	var out []*csc
	for _, c := range cs.h.cscs {
		if !c.dead && c.wrapper != nil && c.p != nil && (filter == nil || filter(c)) {
			out = append(out, c)
		}
	}
	return out
}

func (cs *caseState) pushConn(c *csc, st connectivity.State) {
	cs.h.mu.Lock()
	p := c.p
	p.conn = st
	p.healthFn = nil // a health listener is only valid for the READY period it was registered in
	cs.h.mu.Unlock()
	s := balancer.SubConnState{ConnectivityState: st}
	if st == connectivity.TransientFailure {
		s.ConnectionError = errors.New("c40: connection refused")
	}
	p.listener(s)
}

// pushHealth sends a real health update through the listener registered on the
// parent SubConn; returns the tag or 0 if no listener is registered.
func (cs *caseState) pushHealth(c *csc, st connectivity.State) int {
	cs.h.mu.Lock()
	fn := c.p.healthFn
	ok := c.p.conn == connectivity.Ready
	cs.h.mu.Unlock()
	if fn == nil || !ok {
		return 0
	}
	cs.tagN++
	cs.pushedThisEvent[cs.tagN] = true
	fn(balancer.SubConnState{ConnectivityState: st, ConnectionError: healthTag{cs.tagN}})
	return cs.tagN
}

// judgeCommon processes the health-listener deliveries of one event that is not
// an interval firing.  noopUnejected: endpoints un-ejected by a no-op config in
// this event.
func (cs *caseState) judgeCommon(kind string, ejectedBefore map[*mEp]bool, noopUnejected map[*mEp]bool) {
	ds, _ := cs.takeDeliveries()
	for _, d := range ds {
		ep := cs.m.assoc[d.c]
		cur := cs.m.current(ep)
		switch {
		case d.isEject():
			cs.viol("ejection-outside-interval", "after %s (no interval firing): SubConn %d (%s) was told TRANSIENT_FAILURE by outlier detection", kind, d.c.id, d.c.addr)
			return
		case d.tag > 0 && cs.pushedThisEvent[d.tag]:
			// a real health update was forwarded
			if cur && ejectedBefore[ep] && !noopUnejected[ep] && d.st != connectivity.TransientFailure {
				cs.viol("ejected-child-sees-non-tf", "after %s: endpoint %s is ejected but its SubConn %d was given health state %v", kind, ep.key, d.c.id, d.st)
				return
			}
			cs.r.Count("health_updates_forwarded", 1)
		default:
			// re-delivery of the latest health state = un-ejection
			if cur && noopUnejected[ep] {
				cs.r.Count("unejections_by_noop_config_seen", 1)
			} else if cur && ep.ejected && d.st != connectivity.TransientFailure {
				cs.viol("ejected-child-sees-non-tf", "after %s: endpoint %s is ejected (until %v) but its SubConn %d was given health state %v", kind, ep.key, ep.ejAt.Add(cs.m.ejectionDuration(ep)).Sub(cs.t0), d.c.id, d.st)
				return
			} else {
				cs.r.Count("unexpected_health_redelivery", 1)
			}
		}
	}
}

// invariants: what the child currently sees on every registered SubConn of a
// current endpoint agrees with the reference's ejection state.
func (cs *caseState) invariants(kind string) {
	if cs.stop {
		return
	}
	cs.h.mu.Lock()
	type bad struct {
		c   *csc
		ep  *mEp
		msg string
		key string
	}
	var bads []bad
	for _, c := range cs.h.cscs {
		if c.dead || !c.registered || c.last == nil {
			continue
		}
		ep := cs.m.assoc[c]
		if !cs.m.current(ep) {
			continue
		}
		if ep.ejected && c.last.st != connectivity.TransientFailure {
			bads = append(bads, bad{c, ep, fmt.Sprintf("endpoint %s is ejected but the last health state its SubConn %d got is %v", ep.key, c.id, c.last.st), "ejected-child-sees-non-tf"})
		}
		if !ep.ejected && c.last.isEject() {
			k := "unejected-child-still-sees-tf"
			if ep.unejBy == "noop" {
				k = "noop-config-still-ejected"
			}
			bads = append(bads, bad{c, ep, fmt.Sprintf("endpoint %s is not ejected (last un-ejected by %q) but the last thing its SubConn %d heard is the ejection TRANSIENT_FAILURE", ep.key, ep.unejBy, c.id), k})
		}
	}
	cs.h.mu.Unlock()
	for _, b := range bads {
		cs.viol(b.key, "after %s: %s", kind, b.msg)
		return
	}
	cs.r.Count("quiescent_checks", 1)
}

// ensureWitnesses: every current endpoint gets a READY SubConn with a health
// listener so the next firing's decisions are visible.
func (cs *caseState) ensureWitnesses() {
	changed := false
	for _, ep := range cs.m.eps {
		ws := cs.liveCSCs(func(c *csc) bool { return cs.m.assoc[c] == ep && c.registered })
		if len(ws) > 0 {
			continue
		}
		cands := cs.liveCSCs(func(c *csc) bool { return cs.m.assoc[c] == ep })
		var c *csc
		if len(cands) == 0 {
			cs.h.mu.Lock()
			cb := cs.h.child
			cs.h.mu.Unlock()
			c = cb.newSC(ep.key, ep.addrs[0])
			cs.absorbNewSubConns()
			if cs.m.assoc[c] != ep {
				continue
			}
			cs.r.Count("witness_subconns_created", 1)
		} else {
			c = cands[0]
		}
		wasEjected := ep.ejected
		cs.pushConn(c, connectivity.Ready)
		cs.logEv("witness-ready", fmt.Sprintf("sc%d %s", c.id, c.addr))
		changed = true
		synctest.Wait()
		if wasEjected {
			cs.checkRegisteredWhileEjected(c, ep, "making a witness READY")
		}
	}
	if changed {
		cs.settle()
		cs.judgeCommon("witness-ready", cs.ejectedSet(), nil)
	}
}

func (cs *caseState) ejectedSet() map[*mEp]bool {
	out := map[*mEp]bool{}
	for _, e := range cs.m.eps {
		if e.ejected {
			out[e] = true
		}
	}
	return out
}

// checkRegisteredWhileEjected: a SubConn of an endpoint that is already ejected
// became READY and the child registered a health listener on it (what happens
// when an ejected backend's connection is re-established).  The real channel
// then reports the connection's health (READY when no health checking is
// configured); the script does the same.  The child must now see
// TRANSIENT_FAILURE for that SubConn.
func (cs *caseState) checkRegisteredWhileEjected(c *csc, ep *mEp, kind string) {
	cs.h.mu.Lock()
	reg := c.registered
	cs.h.mu.Unlock()
	if !reg || !cs.m.current(ep) || !ep.ejected {
		return
	}
	cs.r.Count("health_listener_registered_while_ejected", 1)
	tag := cs.pushHealth(c, connectivity.Ready)
	synctest.Wait()
	cs.h.mu.Lock()
	last := c.last
	cs.h.mu.Unlock()
	if last == nil {
		cs.viol("registered-while-ejected-not-told-tf", "after %s: endpoint %s is ejected (until %v); its SubConn %d became READY, the child registered a health listener and the connection reported health READY (tag %d): the child's listener was never called, so the SubConn does not appear TRANSIENT_FAILURE (a pick_first leaf stays CONNECTING)",
			kind, ep.key, ep.ejAt.Add(cs.m.ejectionDuration(ep)).Sub(cs.t0), c.id, tag)
	}
}

// fire evaluates one interval firing that happened at time T.
func (cs *caseState) fire(T time.Time, kind string) {
	m := cs.m
	cs.firings++
	cs.r.Count("interval_firings", 1)
	ds, mets := cs.takeDeliveries()
	n := len(m.eps)
	// counters of the finished interval
	snap := map[*mEp][2]uint32{}
	for _, e := range m.eps {
		snap[e] = [2]uint32{e.succ, e.fail}
		e.succ, e.fail = 0, 0
	}
	m.timerStart = T
	m.nextFire = T.Add(m.cfg.Interval)
	cand, srHosts, fpHosts := m.candidates(snap)

	// what the witnesses saw
	type ku struct{ k, u int }
	per := map[*csc]*ku{}
	for _, d := range ds {
		ep := m.assoc[d.c]
		if !m.current(ep) {
			cs.r.Count("deliveries_on_untracked_subconn_at_firing", 1)
			continue
		}
		x := per[d.c]
		if x == nil {
			x = &ku{}
			per[d.c] = x
		}
		if d.isEject() {
			if x.u > 0 {
				cs.r.Count("eject_after_uneject_same_firing", 1)
			}
			x.k++
		} else {
			x.u++
			if d.tag > 0 && cs.pushedThisEvent[d.tag] {
				cs.r.Count("forward_during_firing", 1)
			}
		}
	}
	kOf, uOf := map[*mEp]int{}, map[*mEp]int{}
	for _, ep := range m.eps {
		regs := cs.liveCSCs(func(c *csc) bool { return m.assoc[c] == ep && c.registered })
		if len(regs) == 0 {
			cs.r.Count("endpoint_without_witness_at_firing", 1)
			continue
		}
		first := true
		for _, c := range regs {
			x := per[c]
			if x == nil {
				x = &ku{}
			}
			if first {
				kOf[ep], uOf[ep] = x.k, x.u
				first = false
			} else if x.k != kOf[ep] || x.u != uOf[ep] {
				cs.viol("ejected-child-sees-non-tf", "firing at %v: SubConns of endpoint %s disagree: SubConn %d saw %d ejections/%d un-ejections, another saw %d/%d", T.Sub(cs.t0), ep.key, c.id, x.k, x.u, kOf[ep], uOf[ep])
				return
			}
		}
	}
	enforced, unenfOverflow, unenfPct := 0, 0, 0
	for _, mr := range mets {
		switch mr.name {
		case "grpc.lb.outlier_detection.ejections_enforced":
			enforced++
		case "grpc.lb.outlier_detection.ejections_unenforced":
			if len(mr.labels) > 0 && mr.labels[len(mr.labels)-1] == "max_ejection_overflow" {
				unenfOverflow++
			} else {
				unenfPct++
			}
		}
	}

	// (a) every ejection is justified by a criterion
	E0 := m.ejectedCount()
	sumK, newly, re := 0, 0, 0
	srOn := m.cfg.SR != nil && m.cfg.SR.EnforcementPercentage == 100
	fpOn := m.cfg.FP != nil && m.cfg.FP.EnforcementPercentage == 100
	var sig []string
	for _, ep := range m.eps {
		k := kOf[ep]
		if k == 0 {
			continue
		}
		sumK += k
		ci := cand[ep]
		allowed := 0
		if srOn && ci.srMaybe {
			allowed++
		}
		if fpOn && ci.fpMaybe {
			allowed++
		}
		if k > allowed {
			sf := snap[ep]
			desc := fmt.Sprintf("firing at %v: endpoint %s (calls last interval: %d ok / %d failed) was ejected %d time(s); criteria allow %d (success-rate outlier=%v considered=%v hosts=%d, failure-percentage outlier=%v considered=%v hosts=%d)",
				T.Sub(cs.t0), ep.key, sf[0], sf[1], k, allowed, ci.srMaybe, ci.srConsidered, srHosts, ci.fpMaybe, ci.fpConsidered, fpHosts)
			key := "ejected-non-outlier"
			switch {
			case !srOn && !fpOn:
				key = "ejected-with-zero-enforcement"
			case !ci.srConsidered && !ci.fpConsidered:
				key = "ejected-below-request-volume"
			case (m.cfg.SR == nil || !ci.srConsidered || uint32(srHosts) < m.cfg.SR.MinimumHosts) && (m.cfg.FP == nil || !ci.fpConsidered || uint32(fpHosts) < m.cfg.FP.MinimumHosts):
				key = "ejected-below-minimum-hosts"
			}
			cs.viol(key, "%s", desc)
			return
		}
		if ep.ejected || k > 1 {
			re += k
			if !ep.ejected {
				re--
				newly++
			}
		} else {
			newly++
		}
	}
	// (b) the cap
	if newly > 0 {
		if _, maybe := roomFor(E0+newly-1, n, m.cfg.MaxPct); !maybe {
			cs.viol("ejected-over-max-percent", "firing at %v: %d endpoint(s) newly ejected while %d of %d were already ejected: the last of them was ejected at an ejected share of %d/%d >= max_ejection_percent %d",
				T.Sub(cs.t0), newly, E0, n, E0+newly-1, n, m.cfg.MaxPct)
			return
		}
	}
	if re > 0 {
		if _, maybe := roomFor(E0, n, m.cfg.MaxPct); !maybe {
			cs.viol("ejected-over-max-percent", "firing at %v: an already ejected endpoint was ejected again while %d of %d endpoints were ejected (max_ejection_percent %d)", T.Sub(cs.t0), E0, n, m.cfg.MaxPct)
			return
		}
		cs.r.Count("re_ejections_of_ejected_endpoint", int64(re))
	}
	if enforced > sumK {
		cs.viol("ejected-child-sees-non-tf", "firing at %v: the balancer recorded %d enforced ejection(s) but the health listeners of the endpoints' READY SubConns saw only %d TRANSIENT_FAILURE notification(s)", T.Sub(cs.t0), enforced, sumK)
		return
	}
	if enforced < sumK {
		cs.r.Count("ejections_without_metric", int64(sumK-enforced))
	}
	// evidence for the non-verdict direction
	for _, ep := range m.eps {
		ci := cand[ep]
		if kOf[ep] == 0 && !ep.ejected && ((srOn && ci.srDef) || (fpOn && ci.fpDef)) {
			if def, _ := roomFor(E0+newly, n, m.cfg.MaxPct); def {
				cs.r.Count("candidate_not_ejected_despite_room", 1)
				cs.r.Sample(map[string]any{"what": "candidate not ejected although the real ejected share left room (recorded, not judged)", "case": cs.idx, "endpoint": ep.key,
					"ejected_real": E0 + newly, "endpoints": n, "max_ejection_percent": m.cfg.MaxPct, "unenforced_overflow_metric": unenfOverflow})
			} else {
				cs.r.Count("candidate_blocked_by_max_ejection_percent", 1)
			}
		}
		if (ci.srMaybe && !ci.srDef) || (ci.fpMaybe && !ci.fpDef) {
			cs.r.Count("borderline_criterion_decisions", 1)
		}
	}
	// apply ejections
	for _, ep := range m.eps {
		if k := kOf[ep]; k > 0 {
			ep.ejected = true
			ep.ejAt = T
			ep.mult += int64(k)
		}
	}
	cs.r.Count("ejections_observed", int64(sumK))
	cs.r.Count("ejections_unenforced_overflow_metric", int64(unenfOverflow))
	cs.r.Count("ejections_unenforced_percentage_metric", int64(unenfPct))
	// (c) un-ejection / multiplier decay
	unej := 0
	for _, ep := range m.eps {
		u := uOf[ep]
		if !ep.ejected {
			if kOf[ep] == 0 && ep.mult > 0 {
				ep.mult--
			}
			if u > 0 {
				cs.r.Count("unexpected_health_redelivery", int64(u))
			}
			continue
		}
		dur := m.ejectionDuration(ep)
		uet := ep.ejAt.Add(dur)
		switch {
		case T.After(uet):
			if u == 0 {
				cs.viol("uneject-late", "firing at %v: endpoint %s was ejected at %v with multiplier %d (duration min(%v*%d, max(%v,%v)) = %v, over at %v) and is still ejected",
					T.Sub(cs.t0), ep.key, ep.ejAt.Sub(cs.t0), ep.mult, m.cfg.Base, ep.mult, m.cfg.Base, m.cfg.MaxEj, dur, uet.Sub(cs.t0))
				return
			}
		case T.Before(uet):
			if u > 0 {
				cs.viol("uneject-early", "firing at %v: endpoint %s was ejected at %v with multiplier %d (duration %v, over at %v) but was already un-ejected",
					T.Sub(cs.t0), ep.key, ep.ejAt.Sub(cs.t0), ep.mult, dur, uet.Sub(cs.t0))
				return
			}
		default:
			cs.r.Count("unejection_at_exact_deadline_either_way", 1)
		}
		if u > 0 {
			ep.ejected = false
			ep.unejBy = "time"
			unej++
		}
	}
	cs.r.Count("unejections_by_time", int64(unej))
	srC, fpC := 0, 0
	for _, ci := range cand {
		if ci.srDef {
			srC++
		}
		if ci.fpDef {
			fpC++
		}
	}
	sig = append(sig, fmt.Sprintf("n%d/e0_%d/sr%d/fp%d/new%d/re%d/un%d/ovf%v/%s", bucket(n), E0, srC, fpC, newly, re, unej, unenfOverflow > 0, kind))
	if sumK > 0 || unej > 0 || unenfOverflow > 0 || E0 > 0 {
		cs.r.Nontrivial(sig[0])
	}
}

func bucket(n int) int {
	switch {
	case n <= 2:
		return n
	case n <= 4:
		return 4
	case n <= 6:
		return 6
	}
	return 8
}

var durChoices = struct{ interval, base, maxEj []time.Duration }{
	interval: []time.Duration{time.Second, 2 * time.Second, 5 * time.Second, 10 * time.Second},
	base:     []time.Duration{0, time.Second, 3 * time.Second, 10 * time.Second, 30 * time.Second, 2500 * time.Millisecond},
	maxEj:    []time.Duration{0, 5 * time.Second, 20 * time.Second, 300 * time.Second},
}

func genCfg(rng *rand.Rand, forceNoop bool) *odCfg {
	c := &odCfg{
		Interval: durChoices.interval[rng.Intn(len(durChoices.interval))],
		Base:     durChoices.base[rng.Intn(len(durChoices.base))],
		MaxEj:    durChoices.maxEj[rng.Intn(len(durChoices.maxEj))],
		MaxPct:   vlib.Pick[uint32](rng, 0, 10, 25, 33, 34, 50, 50, 67, 100, 100, 100),
	}
	enf := func() uint32 {
		if rng.Intn(6) == 0 {
			return 0
		}
		return 100
	}
	if !forceNoop {
		k := rng.Intn(10)
		if k < 6 {
			c.SR = &srCfg{StdevFactor: vlib.Pick[uint32](rng, 0, 500, 1000, 1900, 1900, 3000), EnforcementPercentage: enf(),
				MinimumHosts: vlib.Pick[uint32](rng, 0, 1, 2, 3, 3, 5), RequestVolume: vlib.Pick[uint32](rng, 1, 2, 3, 5, 10)}
		}
		if k >= 4 || (k == 3) {
			c.FP = &fpCfg{Threshold: vlib.Pick[uint32](rng, 0, 20, 50, 50, 85, 100), EnforcementPercentage: enf(),
				MinimumHosts: vlib.Pick[uint32](rng, 0, 1, 2, 3, 5), RequestVolume: vlib.Pick[uint32](rng, 1, 2, 3, 5, 10)}
		}
	}
	c.Text = c.jsonText()
	return c
}

func genEndpoints(rng *rand.Rand, cur [][]string) [][]string {
	pool := []string{"a0", "a1", "a2", "a3", "a4", "a5", "a6", "a7", "a8", "a9", "b0", "b1"}
	used := map[string]bool{}
	var out [][]string
	if cur != nil && rng.Intn(4) != 0 {
		// edit the current list
		out = append(out, cur...)
		for edits := 1 + rng.Intn(2); edits > 0; edits-- {
			switch k := rng.Intn(5); {
			case k == 0 && len(out) > 1:
				at := rng.Intn(len(out))
				out = append(out[:at:at], out[at+1:]...)
			case k == 1 && len(out) > 0:
				// change the address set of one endpoint (becomes a new endpoint)
				at := rng.Intn(len(out))
				if len(out[at]) > 1 {
					out[at] = out[at][:1]
				} else {
					out[at] = []string{out[at][0], "x"}
				}
			default:
				out = append(out, []string{"x"})
			}
		}
	} else {
		n := 1 + rng.Intn(8)
		for i := 0; i < n; i++ {
			if rng.Intn(5) == 0 {
				out = append(out, []string{"x", "x"})
			} else {
				out = append(out, []string{"x"})
			}
		}
	}
	// resolve placeholders with unused addresses; drop what cannot be resolved
	for _, e := range out {
		for _, a := range e {
			if a != "x" {
				used[a] = true
			}
		}
	}
	var res [][]string
	for _, e := range out {
		ne := make([]string, 0, len(e))
		for _, a := range e {
			if a == "x" {
				for _, p := range rng.Perm(len(pool)) {
					if !used[pool[p]] {
						a = pool[p]
						used[a] = true
						break
					}
				}
			}
			if a != "x" {
				ne = append(ne, a)
			}
		}
		if len(ne) > 0 {
			res = append(res, ne)
		}
	}
	if len(res) == 0 {
		res = [][]string{{"a0"}}
	}
	return res
}

func (cs *caseState) doUpdate(cfg *odCfg, eps [][]string, kind string) {
	now := time.Now()
	m := cs.m
	// will the timer fire at once?  then its decisions must be visible
	if m.cfg != nil && !cfg.noop() && !m.timerStart.IsZero() && !m.timerStart.Add(cfg.Interval).After(now) {
		cs.ensureWitnesses()
		if cs.stop {
			return
		}
	}
	lb, err := cs.parser.ParseConfig(json.RawMessage(cfg.Text))
	if err != nil {
		cs.r.Inconclusive("generated outlier detection config rejected: %v (%s)", err, cfg.Text)
		cs.stop = true
		return
	}
	var res []resolver.Endpoint
	var names []string
	for _, e := range eps {
		var as []resolver.Address
		for _, a := range e {
			as = append(as, resolver.Address{Addr: a})
		}
		res = append(res, resolver.Endpoint{Addresses: as})
		names = append(names, strings.Join(e, "+"))
	}
	cs.pushedThisEvent = map[int]bool{}
	ejBefore := cs.ejectedSet()
	cs.h.mu.Lock()
	cs.h.pushPickerOnUpdate = cs.h.parentN == 0 || cs.rng.Intn(3) != 0
	cs.h.mu.Unlock()
	cs.logEv(kind, fmt.Sprintf("%s endpoints=%v", cfg.Text, names))
	unej, removedEjected := m.update(now, cfg, eps)
	cs.endpointsNow = eps
	if err := cs.od.UpdateClientConnState(balancer.ClientConnState{ResolverState: resolver.State{Endpoints: res}, BalancerConfig: lb}); err != nil {
		cs.viol("config-update-error", "UpdateClientConnState(%s) = %v", cfg.Text, err)
		return
	}
	cs.settle()
	cs.absorbNewSubConns()
	cs.r.Count("events_config_update", 1)
	if removedEjected > 0 {
		cs.r.Count("endpoints_removed_while_ejected", int64(removedEjected))
	}
	if cfg.noop() {
		cs.r.Count("events_noop_config", 1)
	}
	nu := map[*mEp]bool{}
	for _, e := range unej {
		nu[e] = true
	}
	if !m.nextFire.IsZero() && !m.nextFire.After(now) {
		// the timer fired at once, inside this event
		cs.fire(now, "immediate")
		if cs.stop {
			return
		}
	} else {
		cs.judgeCommon(kind, ejBefore, nu)
	}
	if cs.stop {
		return
	}
	if len(nu) > 0 {
		// "a no-op config un-ejects everything": real health updates must flow again
		for e := range nu {
			for _, c := range cs.liveCSCs(func(c *csc) bool { return cs.m.assoc[c] == e && c.registered }) {
				tag := cs.pushHealth(c, connectivity.Ready)
				if tag == 0 {
					continue
				}
				synctest.Wait()
				cs.h.mu.Lock()
				last := c.last
				cs.h.mu.Unlock()
				if last == nil || last.tag != tag {
					cs.viol("noop-config-still-ejected", "after a no-op config endpoint %s must be un-ejected, but a real health update (READY) on its SubConn %d is still swallowed", e.key, c.id)
					return
				}
				cs.r.Count("noop_unejection_flow_probes", 1)
			}
		}
		cs.takeDeliveries()
		cs.r.Nontrivial(fmt.Sprintf("noop-unejects/%d", len(nu)))
	}
	cs.invariants(kind)
}

// traffic finishes calls on the endpoints through the parent's picker.
func (cs *caseState) traffic() {
	m := cs.m
	cs.h.mu.Lock()
	picker := cs.h.parent.Picker
	cs.h.mu.Unlock()
	if picker == nil {
		return
	}
	counts := !m.cfg.noop()
	keys := make([]string, 0, len(m.eps))
	for k := range m.eps {
		keys = append(keys, k)
	}
	sort.Strings(keys)
	// a volume around the configured request volumes
	rv := uint32(3)
	if m.cfg.SR != nil {
		rv = m.cfg.SR.RequestVolume
	} else if m.cfg.FP != nil {
		rv = m.cfg.FP.RequestVolume
	}
	mode := cs.rng.Intn(6)
	total := 0
	for _, k := range keys {
		ep := m.eps[k]
		cands := cs.liveCSCs(func(c *csc) bool { return m.assoc[c] == ep })
		if len(cands) == 0 {
			continue
		}
		if ep.ejected && cs.rng.Intn(4) != 0 {
			continue // a real child does not route to an ejected endpoint; in-flight calls still finish
		}
		var vol int
		switch cs.rng.Intn(8) {
		case 0:
			vol = 0
		case 1:
			vol = int(rv) - 1
		case 2:
			vol = int(rv)
		default:
			vol = int(rv) + cs.rng.Intn(6)
		}
		// is this endpoint bad in this interval?  bad endpoints are sticky through the case
		bad := (ep.inc*7+cs.idx)%4 == 0
		if mode == 0 {
			bad = cs.rng.Intn(2) == 0
		}
		var failN int
		switch {
		case bad && mode != 5:
			failN = vol - cs.rng.Intn(2)
		case mode == 4:
			failN = cs.rng.Intn(vol + 1)
		default:
			if cs.rng.Intn(5) == 0 {
				failN = 1
			}
		}
		if failN > vol {
			failN = vol
		}
		if failN < 0 {
			failN = 0
		}
		for i := 0; i < vol; i++ {
			c := cands[cs.rng.Intn(len(cands))]
			res, err := picker.Pick(balancer.PickInfo{Ctx: context.Background(), FullMethodName: fmt.Sprintf("/%d", c.id)})
			if err != nil || res.Done == nil {
				cs.r.Count("picks_failed", 1)
				continue
			}
			if res.SubConn != balancer.SubConn(c.p) {
				cs.r.Count("pick_returned_unexpected_subconn", 1)
			}
			pc := pendingCall{done: res.Done, fail: i < failN, ep: m.assoc[c], counts: counts}
			if cs.rng.Intn(12) == 0 {
				cs.pending = append(cs.pending, pc) // finishes later (maybe after the firing / an ejection / a config change)
				continue
			}
			cs.finish(pc)
			total++
		}
	}
	cs.r.Count("calls_finished", int64(total))
	cs.logEv("traffic", fmt.Sprintf("%d calls", total))
}

func (cs *caseState) finish(pc pendingCall) {
	var err error
	if pc.fail {
		err = errors.New("c40: rpc failed")
	}
	pc.done(balancer.DoneInfo{Err: err})
	if pc.counts && pc.ep != nil {
		if pc.fail {
			pc.ep.fail++
		} else {
			pc.ep.succ++
		}
	}
}

func (cs *caseState) finishPending(frac int) {
	var keep []pendingCall
	n := 0
	for _, pc := range cs.pending {
		if cs.rng.Intn(frac) == 0 {
			keep = append(keep, pc)
			continue
		}
		cs.finish(pc)
		n++
	}
	cs.pending = keep
	if n > 0 {
		cs.r.Count("late_calls_finished", int64(n))
		cs.logEv("late-calls", fmt.Sprint(n))
	}
}

// misc: one random non-timer event.
func (cs *caseState) misc() {
	m := cs.m
	cs.pushedThisEvent = map[int]bool{}
	ejBefore := cs.ejectedSet()
	kind := ""
	switch k := cs.rng.Intn(10); {
	case k < 4:
		// connectivity change of a SubConn
		cands := cs.liveCSCs(nil)
		if len(cands) == 0 {
			return
		}
		c := cands[cs.rng.Intn(len(cands))]
		st := vlib.Pick(cs.rng, connectivity.Connecting, connectivity.Ready, connectivity.Ready, connectivity.TransientFailure, connectivity.Idle)
		kind = "subconn-" + st.String()
		cs.logEv(kind, fmt.Sprintf("sc%d %s", c.id, c.addr))
		ep := m.assoc[c]
		cs.pushConn(c, st)
		cs.settle()
		if st == connectivity.Ready && m.current(ep) && ep.ejected {
			cs.checkRegisteredWhileEjected(c, ep, kind)
		}
		cs.r.Count("events_subconn_state", 1)
	case k < 7:
		// a real health update on a READY SubConn
		cands := cs.liveCSCs(func(c *csc) bool { return c.registered })
		if len(cands) == 0 {
			return
		}
		c := cands[cs.rng.Intn(len(cands))]
		st := vlib.Pick(cs.rng, connectivity.Ready, connectivity.Ready, connectivity.TransientFailure, connectivity.Connecting)
		tag := cs.pushHealth(c, st)
		if tag == 0 {
			return
		}
		kind = "health-" + st.String()
		cs.logEv(kind, fmt.Sprintf("sc%d %s tag %d", c.id, c.addr, tag))
		cs.settle()
		ep := m.assoc[c]
		cs.h.mu.Lock()
		last := c.last
		cs.h.mu.Unlock()
		forwarded := last != nil && last.tag == tag
		if m.current(ep) && !ep.ejected && !forwarded {
			key := "unejected-child-still-sees-tf"
			if ep.unejBy == "noop" {
				key = "noop-config-still-ejected"
			}
			cs.viol(key, "endpoint %s is not ejected but a real health update (%v) on its SubConn %d was swallowed", ep.key, st, c.id)
			return
		}
		if m.current(ep) && ep.ejected {
			cs.r.Count("health_updates_while_ejected", 1)
		}
		cs.r.Count("events_health_update", 1)
	case k < 8:
		// the child creates a second SubConn for an address, or recreates one
		cands := cs.liveCSCs(nil)
		if len(cands) == 0 {
			return
		}
		c := cands[cs.rng.Intn(len(cands))]
		cs.h.mu.Lock()
		cb := cs.h.child
		cs.h.mu.Unlock()
		kind = "child-new-subconn"
		if cs.rng.Intn(2) == 0 {
			cb.shutdown(c)
			kind = "child-recreates-subconn"
		}
		nc := cb.newSC(c.key, c.addr)
		cs.logEv(kind, fmt.Sprintf("sc%d -> sc%d %s", c.id, nc.id, c.addr))
		cs.settle()
		cs.absorbNewSubConns()
		cs.r.Count("events_child_subconn_churn", 1)
	case k < 9:
		// the child pushes a new picker
		cs.h.mu.Lock()
		cb := cs.h.child
		cs.h.mu.Unlock()
		if cb == nil {
			return
		}
		kind = "child-picker"
		cb.cc.UpdateState(balancer.State{ConnectivityState: vlib.Pick(cs.rng, connectivity.Ready, connectivity.Connecting), Picker: &childPicker{h: cs.h}})
		cs.settle()
		cs.r.Count("events_child_picker", 1)
	default:
		cs.finishPending(2)
		kind = "late-calls"
		cs.settle()
	}
	if kind == "" || cs.stop {
		return
	}
	cs.judgeCommon(kind, ejBefore, nil)
	cs.invariants(kind)
}

// sleepTo advances virtual time to t (never exactly onto the timer deadline).
func (cs *caseState) sleepTo(t time.Time) {
	now := time.Now()
	if !t.After(now) {
		return
	}
	time.Sleep(t.Sub(now))
	cs.settle()
}

func runCase(t *testing.T, r *vlib.Run, fam string, idx int) {
	rng := r.Rand(fam, idx)
	auth := fmt.Sprintf("c40-%s-%d-%d", fam, idx, r.Seed())
	h := &harness{}
	h.rec = &recorder{h: h}
	harnesses.Store(auth, h)
	defer harnesses.Delete(auth)
	bldr := balancer.Get(outlierdetection.Name)
	if bldr == nil {
		r.Inconclusive("outlier detection balancer is not registered")
		return
	}
	ch := channelz.RegisterChannel(nil, "c40 "+auth)
	defer channelz.RemoveEntry(ch.ID)
	od := bldr.Build(h, balancer.BuildOptions{Authority: auth, ChannelzParent: ch})
	defer od.Close()
	cs := &caseState{t: t, r: r, fam: fam, idx: idx, rng: rng, h: h, od: od, det: &caseDetail{}, t0: time.Now(),
		m: &model{eps: map[string]*mEp{}, addr: map[string]*mEp{}, assoc: map[*csc]*mEp{}}, parser: bldr.(balancer.ConfigParser),
		pushedThisEvent: map[int]bool{}}

	cfg := genCfg(rng, rng.Intn(10) == 0)
	eps := genEndpoints(rng, nil)
	cs.doUpdate(cfg, eps, "config")
	rounds := 8 + rng.Intn(14)
	for round := 0; round < rounds && !cs.stop; round++ {
		// sometimes let part of the interval pass first, so that config updates
		// arrive at arbitrary points of the interval
		if !cs.m.nextFire.IsZero() && rng.Intn(5) < 2 {
			now := time.Now()
			if room := cs.m.nextFire.Sub(now); room > 2*time.Nanosecond {
				cs.pushedThisEvent = map[int]bool{}
				target := now.Add(time.Duration(1 + rng.Int63n(int64(room)-1)))
				cs.logEv("sleep-part-of-interval", target.Sub(now).String())
				cs.sleepTo(target)
				cs.judgeCommon("sleep-part-of-interval", cs.ejectedSet(), nil)
				cs.invariants("sleep-part-of-interval")
				if cs.stop {
					break
				}
			}
		}
		// config / resolver changes
		switch k := rng.Intn(20); {
		case k == 0:
			cs.doUpdate(genCfg(rng, true), cs.endpointsNow, "noop-config")
		case k <= 2:
			cs.doUpdate(genCfg(rng, false), cs.endpointsNow, "config-change")
		case k <= 5:
			cs.doUpdate(cs.m.cfg, genEndpoints(rng, cs.endpointsNow), "resolver-update")
		case k == 6:
			cs.doUpdate(genCfg(rng, false), genEndpoints(rng, cs.endpointsNow), "config+resolver")
		case k == 7:
			cs.doUpdate(cs.m.cfg, cs.endpointsNow, "same-config-again")
		}
		for i := rng.Intn(4); i > 0 && !cs.stop; i-- {
			cs.misc()
		}
		if cs.stop {
			break
		}
		cs.traffic()
		cs.settle()
		for i := rng.Intn(3); i > 0 && !cs.stop; i-- {
			cs.misc()
		}
		if cs.stop {
			break
		}
		now := time.Now()
		if cs.m.nextFire.IsZero() {
			// no timer (no-op config): just let time pass; nothing may happen
			cs.pushedThisEvent = map[int]bool{}
			cs.logEv("sleep-no-timer", "")
			cs.sleepTo(now.Add(time.Duration(1+rng.Intn(20)) * time.Second))
			cs.judgeCommon("sleep-no-timer", cs.ejectedSet(), nil)
			cs.invariants("sleep-no-timer")
			continue
		}
		if rng.Intn(4) == 0 && cs.m.nextFire.Sub(now) > 2*time.Nanosecond {
			// stop somewhere before the firing (1 ns before it sometimes): nothing may happen yet
			cs.pushedThisEvent = map[int]bool{}
			var target time.Time
			if rng.Intn(2) == 0 {
				target = cs.m.nextFire.Add(-time.Nanosecond)
			} else {
				target = now.Add(time.Duration(rng.Int63n(int64(cs.m.nextFire.Sub(now)))))
			}
			if target.After(now) && target.Before(cs.m.nextFire) {
				cs.logEv("sleep-before-firing", target.Sub(now).String())
				cs.sleepTo(target)
				cs.judgeCommon("sleep-before-firing", cs.ejectedSet(), nil)
				cs.invariants("sleep-before-firing")
				if cs.stop {
					break
				}
				switch rng.Intn(5) {
				case 0, 1:
					cs.misc()
				case 2:
					cs.doUpdate(genCfg(rng, false), cs.endpointsNow, "config-change-late-in-interval")
				}
			}
		}
		if cs.stop {
			break
		}
		if cs.m.nextFire.IsZero() {
			continue
		}
		if cs.stop {
			break
		}
		cs.ensureWitnesses()
		if cs.stop {
			break
		}
		cs.pushedThisEvent = map[int]bool{}
		cs.takeDeliveries()
		T := cs.m.nextFire
		cs.logEv("sleep-to-firing", T.Sub(cs.t0).String())
		cs.sleepTo(T.Add(time.Nanosecond))
		cs.fire(T, "timer")
		cs.invariants("firing")
	}
	// let the calls still in flight finish (the balancer must cope), then close
	if !cs.stop {
		cs.finishPending(1 << 30)
		cs.settle()
	}
	r.Eval(1)
	if idx < 2 {
		cs.refreshDetail()
		n := len(cs.det.Events)
		if n > 14 {
			n = 14
		}
		r.Sample(map[string]any{"family": fam, "case": idx, "first_events": cs.det.Events[:n], "final_endpoints": cs.det.Endpoints, "firings": cs.firings})
	}
	_ = math.Abs
}

func TestVerifC40(t *testing.T) {
	r := vlib.Start(t, "C40")
	n := r.N(1500, 30000)
	const workers = 8
	const fam = "hist"
	t.Run("cases", func(t *testing.T) {
		for w := 0; w < workers; w++ {
			w := w
			t.Run(fmt.Sprintf("w%d", w), func(t *testing.T) {
				t.Parallel()
				for i := w; i < n; i += workers {
					if !r.Want(fam, i) {
						continue
					}
					synctest.Test(t, func(t *testing.T) { runCase(t, r, fam, i) })
				}
			})
		}
	})
	r.Finish(vlib.Spec{
		Level: "exploration",
		Rule: "PRNG histories of 8-21 interval rounds per case against the real outlier_detection balancer in a synctest bubble: generated A50 configs (interval, base/max ejection time incl. 0, max_ejection_percent 0..100, success-rate and/or failure-percentage sections with enforcement 0 or 100, no-op configs), resolver updates adding/removing/re-adding endpoints and changing address sets (also while ejected), calls finished through the wrapped picker (volumes around request_volume, sticky bad endpoints, calls finishing late), SubConn connectivity/health churn, child SubConn re-creation; " +
			"each firing is judged against the reference (criteria, cap, un-ejection time, multiplier) and every event is followed by the 'child sees TF iff ejected' invariants at exact quiescence; distinct = (endpoint-count bucket, ejected before, #success-rate and #failure-percentage outliers, new/re-/un-ejections, cap overflow seen, firing kind) of firings where something was or stayed ejected",
		Assumptions: []string{
			"the child is a scripted policy that registers a health listener on every READY SubConn (as pick_first does under a petiole policy); ejection is observed as TRANSIENT_FAILURE with nil ConnectionError on that listener, real health updates carry a tagged error",
			"before each interval firing every current endpoint is given one READY SubConn with a registered listener so each decision of the real code is visible; the reference follows the decisions actually taken",
			"enforcement percentages are 0 or 100; success-rate comparisons within 1e-9 of the threshold and exact/float64 disagreements of percentages are accepted either way; un-ejection at exactly ejection time + duration is accepted either way",
			"virtual time (testing/synctest): the script never acts at the instant the interval timer fires",
		},
		Floor: 200,
	})
}
